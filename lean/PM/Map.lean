/-
  PM/Map.lean — executable model of prosemirror/transform/map.py
  (StepMap._map / map / map_result / recover / touches / for_each / invert,
   Mapping._map / map / slice / append_* / invert / get_mirror / set_mirror).

  Core Lean only.  Positions and sizes are `Int` (Python ints); well-formedness
  (non-negative, sorted, non-overlapping) is a hypothesis of the theorems, not of
  the definitions, so that the driver can run the model on malformed maps too.
-/
namespace PM

/-- One range of a step map: `(start, oldSize, newSize)` as stored (non-inverted reading). -/
abbrev Range := Int × Int × Int

structure StepMap where
  ranges   : List Range
  inverted : Bool := false
deriving Repr, DecidableEq, Inhabited

/-- deletion-info bits, as in map.py -/
def DEL_BEFORE : Nat := 1
def DEL_AFTER  : Nat := 2
def DEL_ACROSS : Nat := 4
def DEL_SIDE   : Nat := 8

structure MapResult where
  pos     : Int
  delInfo : Nat := 0
  /-- `(range index, offset into the range)`; the code packs this as `index + offset * 2^16`. -/
  recover : Option (Nat × Int) := none
deriving Repr, DecidableEq, Inhabited

def MapResult.deleted (r : MapResult) : Bool := r.delInfo &&& DEL_SIDE > 0
def MapResult.deletedBefore (r : MapResult) : Bool := r.delInfo &&& (DEL_BEFORE ||| DEL_ACROSS) > 0
def MapResult.deletedAfter (r : MapResult) : Bool := r.delInfo &&& (DEL_AFTER ||| DEL_ACROSS) > 0
def MapResult.deletedAcross (r : MapResult) : Bool := r.delInfo &&& DEL_ACROSS > 0

/-- old-side size of a stored range under an orientation -/
@[inline] def Range.oldSize (inv : Bool) (r : Range) : Int := if inv then r.2.2 else r.2.1
@[inline] def Range.newSize (inv : Bool) (r : Range) : Int := if inv then r.2.1 else r.2.2

/-- The loop of `StepMap._map` (the non-`simple` variant; `map` is its `.pos`). -/
def mapAux (inv : Bool) (pos assoc : Int) : List Range → (diff : Int) → (idx : Nat) → MapResult
  | [], diff, _ => { pos := pos + diff }
  | r :: rest, diff, idx =>
    let start := r.1 - (if inv then diff else 0)
    if start > pos then { pos := pos + diff }
    else
      let oldSize := r.oldSize inv
      let newSize := r.newSize inv
      let end_ := start + oldSize
      if pos ≤ end_ then
        let side : Int :=
          if oldSize = 0 then assoc
          else if pos = start then -1
          else if pos = end_ then 1
          else assoc
        let result := start + diff + (if side < 0 then 0 else newSize)
        let recover : Option (Nat × Int) :=
          if pos = (if assoc < 0 then start else end_) then none else some (idx, pos - start)
        let del0 : Nat :=
          if pos = start then DEL_AFTER else if pos = end_ then DEL_BEFORE else DEL_ACROSS
        let side' : Bool := if assoc < 0 then pos != start else pos != end_
        let del := if side' then del0 ||| DEL_SIDE else del0
        { pos := result, delInfo := del, recover := recover }
      else mapAux inv pos assoc rest (diff + newSize - oldSize) (idx + 1)

def StepMap.mapResult (m : StepMap) (pos : Int) (assoc : Int := 1) : MapResult :=
  mapAux m.inverted pos assoc m.ranges 0 0

def StepMap.map (m : StepMap) (pos : Int) (assoc : Int := 1) : Int :=
  (m.mapResult pos assoc).pos

def StepMap.invert (m : StepMap) : StepMap := { m with inverted := !m.inverted }

/-- `StepMap.recover` on an unpacked recover value. `none` models Python's IndexError. -/
def StepMap.recover (m : StepMap) (rv : Nat × Int) : Option Int :=
  match m.ranges[rv.1]? with
  | none => none
  | some r =>
    let diff : Int :=
      if m.inverted then 0
      else ((m.ranges.take rv.1).map (fun q => q.2.2 - q.2.1)).sum
    some (r.1 + diff + rv.2)

/-- The documented behaviour of `StepMap.touches pos recover`:
    does the range identified by the recover value contain `pos` (closed interval)? -/
def touchesAux (inv : Bool) (pos : Int) (index : Nat) : List Range → (diff : Int) → (idx : Nat) → Bool
  | [], _, _ => false
  | r :: rest, diff, idx =>
    let start := r.1 - (if inv then diff else 0)
    if start > pos then false
    else
      let oldSize := r.oldSize inv
      let end_ := start + oldSize
      if pos ≤ end_ && idx == index then true
      else touchesAux inv pos index rest (diff + r.newSize inv - oldSize) (idx + 1)

def StepMap.touches (m : StepMap) (pos : Int) (rv : Nat × Int) : Bool :=
  touchesAux m.inverted pos rv.1 m.ranges 0 0

/-- `for_each`: the list of `(oldStart, oldEnd, newStart, newEnd)` quadruples, in range order. -/
def forEachAux (inv : Bool) : List Range → (diff : Int) → List (Int × Int × Int × Int)
  | [], _ => []
  | r :: rest, diff =>
    let start := r.1
    let oldStart := start - (if inv then diff else 0)
    let newStart := start + (if inv then 0 else diff)
    let oldSize := r.oldSize inv
    let newSize := r.newSize inv
    (oldStart, oldStart + oldSize, newStart, newStart + newSize)
      :: forEachAux inv rest (diff + newSize - oldSize)

def StepMap.forEach (m : StepMap) : List (Int × Int × Int × Int) :=
  forEachAux m.inverted m.ranges 0

/-! ### Mapping (a pipeline of step maps with mirror registrations) -/

structure Mapping where
  maps   : List StepMap := []
  /-- flat list of mirror pairs `[n₀, m₀, n₁, m₁, …]` as in the code -/
  mirror : List Nat := []
  from_  : Nat := 0
  to     : Nat := 0
deriving Repr, DecidableEq, Inhabited

def Mapping.ofMaps (ms : List StepMap) : Mapping := { maps := ms, to := ms.length }

/-- `get_mirror`: first occurrence of `n` in the flat list; partner is the neighbour by parity. -/
def getMirrorAux (n : Nat) : List Nat → Option Nat
  | a :: b :: rest => if a = n then some b else if b = n then some a else getMirrorAux n rest
  | _ => none

def Mapping.getMirror (m : Mapping) (n : Nat) : Option Nat := getMirrorAux n m.mirror

def Mapping.setMirror (m : Mapping) (n k : Nat) : Mapping := { m with mirror := m.mirror ++ [n, k] }

def Mapping.slice (m : Mapping) (from_ : Nat) (to : Option Nat := none) : Mapping :=
  { m with from_ := from_, to := to.getD m.maps.length }

def Mapping.appendMap (m : Mapping) (sm : StepMap) (mirrors : Option Nat := none) : Mapping :=
  let m1 := { m with maps := m.maps ++ [sm], to := m.maps.length + 1 }
  match mirrors with
  | none => m1
  | some k => m1.setMirror (m1.maps.length - 1) k

/-- `append_mapping` (documented behaviour): append every map of `other`, carrying over
    mirror pairs whose partner precedes them. -/
def Mapping.appendMapping (m other : Mapping) : Mapping :=
  let startSize := m.maps.length
  (List.range other.maps.length).foldl (fun acc i =>
    match other.maps[i]? with
    | none => acc
    | some sm =>
      let mirr := other.getMirror i
      acc.appendMap sm (match mirr with
        | some k => if k < i then some (startSize + k) else none
        | none => none)) m

def Mapping.appendMappingInverted (m other : Mapping) : Mapping :=
  let total := m.maps.length + other.maps.length
  ((List.range other.maps.length).reverse).foldl (fun acc i =>
    match other.maps[i]? with
    | none => acc
    | some sm =>
      let mirr := other.getMirror i
      acc.appendMap sm.invert (match mirr with
        | some k => if k > i then some (total - k - 1) else none
        | none => none)) m

def Mapping.invert (m : Mapping) : Mapping := ({} : Mapping).appendMappingInverted m

/-- `Mapping._map` with `fuel` bounding the number of loop iterations (each iteration
    strictly increases `i`, so `to - from` iterations always suffice). -/
def mappingMapAux (m : Mapping) (assoc : Int) : (fuel : Nat) → (i : Nat) → (pos : Int) → (del : Nat) → Option MapResult
  | 0, i, pos, del => if i < m.to then none else some { pos := pos, delInfo := del }
  | fuel + 1, i, pos, del =>
    if i < m.to then
      match m.maps[i]? with
      | none => none   -- IndexError in the code
      | some sm =>
        let result := sm.mapResult pos assoc
        match result.recover with
        | some rv =>
          match m.getMirror i with
          | some corr =>
            if corr > i ∧ corr < m.to then
              match m.maps[corr]? with
              | none => none
              | some cm =>
                match cm.recover rv with
                | none => none
                | some p => mappingMapAux m assoc fuel (corr + 1) p del
            else mappingMapAux m assoc fuel (i + 1) result.pos (del ||| result.delInfo)
          | none => mappingMapAux m assoc fuel (i + 1) result.pos (del ||| result.delInfo)
        | none => mappingMapAux m assoc fuel (i + 1) result.pos (del ||| result.delInfo)
    else some { pos := pos, delInfo := del }

def Mapping.mapResult (m : Mapping) (pos : Int) (assoc : Int := 1) : Option MapResult :=
  mappingMapAux m assoc (m.to - m.from_ + 1) m.from_ pos 0

/-- plain left-to-right composition (what `Mapping.map` does when no mirrors are registered) -/
def Mapping.mapPlain (m : Mapping) (pos : Int) (assoc : Int := 1) : Int :=
  ((m.maps.take m.to).drop m.from_).foldl (fun p sm => sm.map p assoc) pos

def Mapping.map (m : Mapping) (pos : Int) (assoc : Int := 1) : Option Int :=
  if m.mirror.isEmpty then
    -- `for i in range(from_, to): pos = self.maps[i].map(...)`: IndexError iff the loop reaches `len(maps)`
    (if m.to ≤ m.maps.length ∨ m.to ≤ m.from_ then some (m.mapPlain pos assoc) else none)
  else (m.mapResult pos assoc).map (·.pos)

/-- The mapping the code builds when a history `ms` is undone in place:
    `mp = Mapping(); for m in ms: mp.append_map(m);`
    `for i in reversed(range(len(ms))): mp.append_map(ms[i].invert(), i)`.
    The second loop runs over the pairs `(ms[i], i)` in reverse order; every inverse is
    registered as the mirror of the map it undoes, through `append_map`/`set_mirror` themselves,
    so `maps`, `mirror`, `from_` and `to` are exactly what the code produces
    (`maps = ms ++ reverse(ms).map invert`, `mirror = [k, k-1, k+1, k-2, …, 2k-1, 0]`,
    `from_ = 0`, `to = 2k`). -/
def palindrome (ms : List StepMap) : Mapping :=
  let mp := ms.foldl (fun acc m => acc.appendMap m) ({} : Mapping)
  ms.zipIdx.reverse.foldl (fun acc mi => acc.appendMap mi.1.invert (some mi.2)) mp

end PM
