/-
  PM/TypePlanFit.lean — the node-level planners of PM/TypePlan.lean (`Transform.replace`,
  `clear_incompatible`, `set_node_markup`, `set_block_type`) with the **Fitter model plugged in**:
  where the real code calls `replace_step` and the request does not fit trivially, these versions
  call `replaceStep` (PM/Fitter.lean: `Fitter(...).fit()` as an executable state machine with fuel)
  instead of consuming a recorded answer from `PSt.fits`.

  The state type is the `PSt` of PM/TypePlan.lean, so that the loop of `clear_incompatible`
  (`clearLoop`), `PSt.step`, `PSt.stepAll` and `PSt.mapFrom` are used unchanged.  The field `fits`
  has a different reading here: it is the **log** of the answers the Fitter model gave so far, in
  call order (newest last) — the list a recording harness would have produced.  Nothing in this file
  reads it.  The bridge to the oracle versions (Proofs/TypePlanFit.lean, `…F_eq_of_fits`): the
  oracle version fed with exactly that log takes the same run and consumes the whole log.

  The Fitter model has its own outcomes (`FitErr`: raises without a class, out of fuel, an `insert`
  the step type cannot hold); they are kept apart from the planner's error classes (`PlanErr`).
-/
import PM.TypePlan
import PM.Fitter
import PM.KeptChildren
import PM.Monitor
namespace PM

/-- outcomes other than success: an error of the planner itself (argument checks, a step that does
    not apply — the classes of `Res`), or the Fitter model not answering -/
inductive PlanErr where
  | plan (e : Err)
  | fit (e : FitErr)
deriving Repr, DecidableEq, Inhabited

abbrev PlanRes := Except PlanErr

def liftP {α} : Res α → PlanRes α
  | .ok a => .ok a
  | .error e => .error (.plan e)

/-- an answer of the Fitter model in the vocabulary of the recorded oracle (`PSt.fits`): the model
    does not distinguish exception classes, a recorded exception of the Fitter is `internal` -/
def fitAnswer : FM (Option Step) → Res (Option Step)
  | .ok r => .ok r
  | .error _ => .error .internal

def PlanErr.toErr : PlanErr → Err
  | .plan e => e
  | .fit _ => .internal

/-- `Transform.replace(from, to, slice)`: `replace_step` (nothing to do / trivial fit / Fitter model),
    then `self.step` of the result if there is one.  The answer of the Fitter model is appended to
    the log. -/
def PSt.replaceF (S : Schema) (st : PSt) (f t : Nat) (sl : Slice) : PlanRes PSt :=
  if f == t && sl.size == 0 then .ok st
  else
    match st.tr.doc.resolve f, st.tr.doc.resolve t with
    | some rf, some rt =>
      match fitsTrivially S rf rt sl with
      | .error e => .error (.plan e)
      | .ok true => liftP (st.step S (.replace f t sl false))
      | .ok false =>
        match replaceStep S st.tr.doc f t sl with
        | .error e => .error (.fit e)
        | .ok none => .ok { st with fits := st.fits ++ [.ok none] }
        | .ok (some s) => liftP (({ st with fits := st.fits ++ [.ok (some s)] } : PSt).step S s)
    | _, _ => .error (.plan .valueError)

/-- `marks or node.marks`: an absent or empty `marks` argument keeps the node's marks -/
def marksOr (marks : Option Marks) (node : Node) : Marks :=
  match marks with
  | some (m :: r) => m :: r
  | _ => node.marks

/-- `Transform.set_node_markup(pos, type, attrs, marks)` (see `PSt.setNodeMarkup`) -/
def PSt.setNodeMarkupF (S : Schema) (st : PSt) (pos : Nat) (ty : Option TypeId) (attrs : Attrs)
    (marks : Option Marks) : PlanRes PSt :=
  match st.tr.doc.nodeAt pos with
  | .error e => .error (.plan e)
  | .ok none => .error (.plan .valueError)
  | .ok (some node) =>
    let ty := ty.getD (S.tyOf node)
    match S.createNode ty attrs (marksOr marks node) with
    | .error e => .error (.plan e)
    | .ok newNode =>
      if node.isLeaf then st.replaceF S pos (pos + node.size) ⟨[newNode], 0, 0⟩
      else if !S.validContent ty node.kids then .error (.plan .valueError)
      else liftP (st.step S (retypeStep pos (pos + node.size) newNode))

/-- the fillers `clear_incompatible` asks for when its walk ends in the state `q` that is not a
    valid end: `match.fill_before(Fragment.empty, True)` as nodes; `none` = the `assert` fails -/
def clearFill (S : Schema) (pty : TypeId) (q : Nat) : Option (List Node) :=
  match fillBefore (S.dfa pty) S.generatable q [] true with
  | none => none
  | some tys => tys.mapM (S.createAndFill0 (S.nodes.size + 1))

/-- `Transform.clear_incompatible(pos, parent_type, match)` (see `PSt.clearIncompatible`) -/
def PSt.clearIncompatibleF (S : Schema) (st : PSt) (pos : Nat) (pty : TypeId) (q0 : Nat := 0) : PlanRes PSt :=
  match st.tr.doc.nodeAt pos with
  | .error e => .error (.plan e)
  | .ok none => .error (.plan .internal)
  | .ok (some node) =>
    match clearLoop S pty node.kids q0 (pos + 1) [] st with
    | .error e => .error (.plan e)
    | .ok (q, cur, repl, st1) =>
      let filled : PlanRes PSt :=
        if (S.dfa pty).validEnd q then .ok st1
        else
          match clearFill S pty q with
          | none => .error (.plan .internal)
          | some nodes => st1.replaceF S cur cur ⟨nodes, 0, 0⟩
      match filled with
      | .error e => .error e
      | .ok st2 => liftP (st2.stepAll S repl.reverse)

/-- the callback of `set_block_type` on one visit (see `setBlockTypeVisit`) -/
def setBlockTypeVisitF (S : Schema) (ty : TypeId) (attrs : Attrs) (mapFrom : Nat)
    (acc : PlanRes (PSt × Nat)) (v : NV) : PlanRes (PSt × Nat) :=
  match acc with
  | .error e => .error e
  | .ok (st, skip) =>
    if v.pos < skip then .ok (st, skip)
    else if !S.isTextblockN v.node || S.hasMarkup v.node ty attrs then .ok (st, skip)
    else
      match canChangeTypeR S st.tr.doc (st.mapFrom mapFrom v.pos 1) ty with
      | .error e => .error (.plan e)
      | .ok false => .ok (st, skip)
      | .ok true =>
        match st.clearIncompatibleF S (st.mapFrom mapFrom v.pos 1) ty with
        | .error e => .error e
        | .ok st1 =>
          let s := st1.mapFrom mapFrom v.pos 1
          let e := st1.mapFrom mapFrom (v.pos + v.node.size) 1
          match S.createNode ty attrs v.node.marks with
          | .error e => .error (.plan e)
          | .ok nn =>
            match st1.step S (retypeStep s e nn) with
            | .error e => .error (.plan e)
            | .ok st2 => .ok (st2, v.pos + v.node.size)

/-- `Transform.set_block_type(from, to, type, attrs)` (see `PSt.setBlockType`) -/
def PSt.setBlockTypeF (S : Schema) (st : PSt) (f t : Nat) (ty : TypeId) (attrs : Attrs) : PlanRes PSt :=
  let nt := S.nodeType ty
  if !(!nt.isInline && nt.inlineContent) then .error (.plan .valueError)
  else
    match (S.docVisits st.tr.doc f t).foldl (setBlockTypeVisitF S ty attrs st.tr.steps.length) (.ok (st, 0)) with
    | .error e => .error e
    | .ok (st', _) => if fsize st.tr.doc.kids < t then .error (.plan .internal) else .ok st'

/-- a *plain* target type: its content automaton is closed (every edge leads to a state of the
    automaton) and every state is a valid end — `inline*`, `text*`, `(a | b)*`, …: whatever children
    are kept, the walk of `clear_incompatible` ends at a valid end and no filler is ever needed -/
def Schema.plainType (S : Schema) (ty : TypeId) : Bool :=
  decide (0 < (S.dfa ty).size) &&
  (S.dfa ty).toList.all (fun s => s.validEnd && s.edges.all (fun e => decide (e.2 < (S.dfa ty).size)))

/-! ### executable forms of two statements about `clear_incompatible` (evaluated by the tie on real runs) -/

/-- the filler request of `clear_incompatible(pos, pty)` on a node value, as the analysis of
    Props/C13.lean predicts it: `(the walk ends at a valid end, size of the fillers,
    node.can_replace(child_count, child_count, fill))` — the Fitter is consulted iff the first is
    false, the second positive and the third `some false` -/
def fillRequestOf (S : Schema) (node : Node) (pty : TypeId) : Bool × Nat × Option Bool :=
  let q := keptState S pty node.kids 0
  let F := retypeFill S pty q
  ((S.dfa pty).validEnd q, fsize F, S.nodeCanReplace node node.kids.length node.kids.length F)

/-- the conclusion of `clearIncompatibleF_keeps` as a check on the documents before and after a
    `clear_incompatible(pos, pty)`: (the result begins with everything before the node, its open
    token and exactly `keptChildren`; its text is the text before the node, the kept text and the
    text behind the node; the leaf and text tokens behind the node survive as a suffix).
    `none`: no node with content at `pos`. -/
def clearKeepsCheck (S : Schema) (doc : Node) (pos : Nat) (pty : TypeId) (doc' : Node) : Option (Bool × Bool × Bool) :=
  match doc.nodeAt pos with
  | .ok (some node) =>
    if node.isLeaf then none
    else
      let L := ftoks doc.kids
      let K := keptChildren S pty node.kids 0
      let L' := ftoks doc'.kids
      let n0 := pos + 1 + fsize K
      some (L'.take n0 == L.take pos ++ (node.toks.take 1 ++ ftoks K),
        textUnits L' == textUnits (L.take pos) ++ textUnits (ftoks K) ++ textUnits (L.drop (pos + node.size)),
        ((L.drop (pos + node.size)).filter Tok.isContent).isSuffixOf ((L'.drop n0).filter Tok.isContent))
  | _ => none

end PM
