/-
  PM/MarkUndoGuard.lean — decidable guards for the exact undo of the two range mark steps
  (C04: `removeMarkStep_undo`, `addMarkStep_undo`, `markHistory_undo`).

  `AddMarkStep.invert` is `RemoveMarkStep` with the same range and mark and vice versa, whatever the
  document looks like.  That naive inverse restores the document only for some steps; the guards
  below say for which, token by token (they are specification predicates over the model's data,
  like those of PM/UndoGuard.lean, tied to the real code by the `markUndoGuards` request of
  harness/props/c04_marks.py: guard = "the real inverse, applied to the real result, gives back a
  document `eq` to the original").

  The scan walks the flat token sequence of the document with the index of the token (= its
  position) and the type of the node the token lies directly in — the `parent` that
  `AddMarkStep.apply` asks `allows_mark_type`.
-/
import PM.Basic
import PM.Marks
namespace PM
namespace MarkGuard

/-- the marks of the node a token starts (text unit: of its text node) -/
def tokMarks : Tok → Marks
  | .op _ _ m => m
  | .cl => []
  | .leaf _ _ m => m
  | .unit _ m => m

/-- the token starts an inline node: what `RemoveMarkStep` touches (`child.is_inline` in `map_fragment`) -/
def tokInline (S : Schema) : Tok → Bool
  | .unit .. => true
  | .leaf t _ _ => (S.nodeType t).isInline
  | .op t _ _ => (S.nodeType t).isInline
  | .cl => false

/-- the token starts an inline atom: what `AddMarkStep` marks (`node.is_atom` besides `is_inline`) -/
def tokAtom (S : Schema) : Tok → Bool
  | .unit .. => true
  | .leaf t _ _ => (S.nodeType t).isInline
  | .op t _ _ => (S.nodeType t).isInline && (S.nodeType t).isAtom
  | .cl => false

/-- the stack of enclosing node types after a token -/
def push (st : List TypeId) : Tok → List TypeId
  | .op t _ _ => t :: st
  | .cl => st.tail
  | _ => st

/-- `g index parentType token` holds of every token -/
def scanToks (g : Nat → TypeId → Tok → Bool) : Nat → List TypeId → List Tok → Bool
  | _, _, [] => true
  | i, st, tok :: r => g i (st.headD 0) tok && scanToks g (i + 1) (push st tok) r

end MarkGuard
open MarkGuard

/-- adding `m` back after removing it leaves this token as it was: an inline atom whose parent allows
    the mark type gets `m.add_to_set(m.remove_from_set(marks))`, which must be `marks`; any other inline
    node is not touched by the add step, so it must not have lost anything — not carry `m` -/
def removeUndoTok (S : Schema) (m : Mark) (p : TypeId) (tok : Tok) : Bool :=
  !tokInline S tok ||
    (if tokAtom S tok && (S.nodeType p).allowsMarkType m.ty
     then m.addToSet S (m.removeFromSet (tokMarks tok)) == tokMarks tok
     else !m.isInSet (tokMarks tok))

/-- removing `m` after adding it leaves this token as it was -/
def addUndoTok (S : Schema) (m : Mark) (p : TypeId) (tok : Tok) : Bool :=
  !tokInline S tok ||
    (if tokAtom S tok && (S.nodeType p).allowsMarkType m.ty
     then m.removeFromSet (m.addToSet S (tokMarks tok)) == tokMarks tok
     else !m.isInSet (tokMarks tok))

/-- **exact guard of `removeMarkStep_undo`**: `AddMarkStep(f, t, m)` undoes `RemoveMarkStep(f, t, m)`
    applied to `doc` -/
def removeMarkUndoable (S : Schema) (doc : Node) (f t : Nat) (m : Mark) : Bool :=
  scanToks (fun i p tok => !(decide (f ≤ i) && decide (i < t)) || removeUndoTok S m p tok) 0 [S.tyOf doc]
    (ftoks doc.kids)

/-- **exact guard of `addMarkStep_undo`**: `RemoveMarkStep(f, t, m)` undoes `AddMarkStep(f, t, m)`
    applied to `doc` -/
def addMarkUndoable (S : Schema) (doc : Node) (f t : Nat) (m : Mark) : Bool :=
  scanToks (fun i p tok => !(decide (f ≤ i) && decide (i < t)) || addUndoTok S m p tok) 0 [S.tyOf doc]
    (ftoks doc.kids)

/-- at most one mark of type `ty` on the node the token starts -/
def sameTypeFreeTok (ty : MarkTypeId) (tok : Tok) : Bool :=
  decide (((tokMarks tok).filter (·.ty == ty)).length ≤ 1)

/-- **guard of finding `C04-same-type-mark-order`**: no inline node starting in `[f, t)` carries two
    or more marks of type `ty` (`Mark.add_to_set` puts a re-added mark *behind* the other marks of its
    type, so removing and re-adding one of several same-type marks changes their order) -/
def sameTypeFree (S : Schema) (doc : Node) (f t : Nat) (ty : MarkTypeId) : Bool :=
  scanToks (fun i _ tok => !(decide (f ≤ i) && decide (i < t) && tokInline S tok) || sameTypeFreeTok ty tok)
    0 [S.tyOf doc] (ftoks doc.kids)

/-- no inline node *with content* anywhere in the document (true of every document of the bundled
    schemas: their inline types are text and leaves) -/
def flatInline (S : Schema) (doc : Node) : Bool :=
  (ftoks doc.kids).all (fun tok => match tok with
    | .op t _ _ => !(S.nodeType t).isInline
    | _ => true)

/-- every mark type excludes itself (ProseMirror's default when a mark spec has no `excludes`) -/
def selfExcluding (S : Schema) : Bool :=
  (List.range S.marks.size).all (fun t => S.excludes t t)

end PM
