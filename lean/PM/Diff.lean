/-
  PM/Diff.lean — model of prosemirror/model/diff.py (find_diff_start, find_diff_end).

  The identical-child fast path (`child_a == child_b` by identity) is unobservable in a pure
  model: identical children are equal and the slow path skips equal children just the same.
  Text is compared by UTF-16 code units.
-/
import PM.Basic
namespace PM

/-- length of the longest common prefix -/
def lcpLen {α} [DecidableEq α] : List α → List α → Nat
  | x :: xs, y :: ys => if x = y then 1 + lcpLen xs ys else 0
  | _, _ => 0

/-- `find_diff_start(a, b, pos)` -/
def diffStart : List Node → List Node → Nat → Option Nat
  | [], [], _ => none
  | [], _ :: _, pos => some pos
  | _ :: _, [], pos => some pos
  | x :: xs, y :: ys, pos =>
    if !x.sameMarkup y then some pos
    else match x, y with
      | .text s _, .text s' _ =>
        if s ≠ s' then some (pos + lcpLen s s') else diffStart xs ys (pos + s.length)
      | .elem _ _ _ k, .elem _ _ _ k' =>
        match (if fsize k ≠ 0 ∨ fsize k' ≠ 0 then diffStart k k' (pos + 1) else none) with
        | some r => some r
        | none => diffStart xs ys (pos + x.size)
      | _, _ => diffStart xs ys (pos + x.size)

mutual
/-- the mirror image of a tree: children and text reversed at every level -/
def Node.mirror : Node → Node
  | .text s m => .text s.reverse m
  | .leaf t a m => .leaf t a m
  | .elem t a m k => .elem t a m (fmirror k)
def fmirror : List Node → List Node
  | [] => []
  | n :: ns => fmirror ns ++ [n.mirror]
end

/-- `find_diff_end(a, b, posA, posB)`: scanning from the end is scanning the mirror images from
    the start; the common part found has the same length on both sides. -/
def diffEnd (a b : List Node) (posA posB : Nat) : Option (Nat × Nat) :=
  (diffStart (fmirror a) (fmirror b) 0).map (fun k => (posA - k, posB - k))

end PM
