/-
  PM/Fitter.lean — executable model of `replace_step` and class `Fitter`
  (prosemirror/transform/replace.py), line by line: `fit`, `find_fittable` (passes 1 and 2),
  `open_more`, `drop_node`, `place_nodes`, `must_move_inline`, `find_close_level`, `close`,
  `open_frontier_node`, `close_frontier_node`, and the helpers `drop_from_fragment`,
  `add_to_fragment`, `content_at`, `close_node_start`, `content_after_fits`, `invalid_marks`.

  * A content-match object is a state index of the automaton of a node type; a frontier entry is
    `(type, state?)` with the state read in *that type's* automaton (`none` = Python `None`, which
    `open_frontier_node` tolerates storing).
  * The `while self.unplaced.size` loop of `fit` has no bound in the code: `fitLoop` takes fuel and
    answers `outOfFuel` (a distinct outcome, never a default) when it runs out.
  * `raises` = the code raises (assertion, `None.attr`, IndexError, ValueError).  Slices are
    assumed well-formed (`open_start`/`open_end` within the spine); on others the model may answer
    `raises` where the code builds a node out of a text node's markup.
  Tied exactly on the emitted step (harness/rangeplan.py, op `replaceStep`).
-/
import PM.Basic
import PM.Fragment
import PM.Content
import PM.Replace
import PM.Resolve
import PM.Step
import PM.Structure
import PM.RangeOps
import PM.FillOrder
namespace PM

inductive FitErr where
  | raises
  | outOfFuel
  | negInsert     -- `placed_size < 0` (an `insert` the step type of the model cannot hold)
deriving Repr, DecidableEq, Inhabited

abbrev FM := Except FitErr

/-- `_FrontierItem` -/
structure FItem where
  ty : TypeId
  st : Option Nat
deriving Repr, Inhabited, DecidableEq

structure FitState where
  unplaced : Slice
  frontier : List FItem      -- index = depth
  placed   : List Node
deriving Repr, Inhabited

/-- `_Fittable` -/
structure Fittable where
  sliceDepth    : Nat
  frontierDepth : Nat
  parent        : Option Node
  inject        : Option (List Node)
  wrap          : Option (List TypeId)
deriving Repr, Inhabited

def getItem (fr : List FItem) (i : Nat) : FM FItem :=
  match fr[i]? with
  | some it => pure it
  | none => throw .raises

/-- calling a method on the stored match: `None` → AttributeError -/
def getSt (it : FItem) : FM Nat :=
  match it.st with
  | some q => pure q
  | none => throw .raises

def liftRaise {α} : Option α → FM α
  | some a => pure a
  | none => throw .raises

/-- `fill_before` producing nodes; `none` = Python `None` -/
def fillOpt (S : Schema) (d : Dfa) (q : Nat) (after : List TypeId) (toEnd : Bool) : FM (Option (List Node)) :=
  liftRaise (fillBeforeNodes S d q after toEnd)

/-- `node.is_textblock` / `type.is_textblock` -/
def Schema.isTextblockO (S : Schema) (t : TypeId) : Bool :=
  !(S.nodeType t).isInline && (S.nodeType t).inlineContent

/-! ### fragment helpers -/

/-- `content_at(fragment, depth)` -/
def contentAt : List Node → Nat → FM (List Node)
  | frag, 0 => pure frag
  | frag, d + 1 =>
    match frag with
    | [] => throw .raises
    | n :: _ => contentAt n.kids d

/-- `drop_from_fragment(fragment, depth, count)` -/
def dropFromFragment : List Node → Nat → Nat → FM (List Node)
  | frag, 0, count => pure (frag.drop count)
  | frag, d + 1, count =>
    match frag with
    | .elem t a m kids :: rest => do
      let inner ← dropFromFragment kids d count
      pure (.elem t a m inner :: rest)
    | _ => throw .raises

/-- `add_to_fragment(fragment, depth, content)` -/
def addToFragment : List Node → Nat → List Node → FM (List Node)
  | frag, 0, content => pure (fappend frag content)
  | frag, d + 1, content =>
    match frag.getLast? with
    | some (.elem t a m kids) => do
      let inner ← addToFragment kids d content
      pure (frag.dropLast ++ [.elem t a m inner])
    | _ => throw .raises

/-- `close_node_start(node, open_start, open_end)`; recursion on `open_start`.
    The Fitter itself reaches text / leaf nodes here (after `place_nodes` drops placed children the
    slice keeps its `open_start`, which may then exceed the spine by one): their content is
    `Fragment.empty`, every filling is empty and `node.copy` returns the node itself. -/
def closeNodeStart (S : Schema) : Nat → Node → Int → FM Node
  | 0, node, _ => pure node
  | os + 1, node, openEnd => do
    let kids := node.kids
    let t := S.tyOf node
    let frag ←
      (if os = 0 then pure kids
       else
        match kids with
        | [] => throw .raises
        | c :: rest => do
          let c' ← closeNodeStart S os c (if kids.length == 1 then openEnd - 1 else 0)
          pure (c' :: rest))
    let fill ← fillOpt S (S.dfa t) 0 (S.types frag) false
    let fill ← liftRaise fill
    let frag := fappend fill frag
    let tail ←
      (if openEnd ≤ 0 then do
        let q ← liftRaise ((S.dfa t).run 0 (S.types frag))
        let fill2 ← fillOpt S (S.dfa t) q [] true
        liftRaise fill2
       else pure [])
    pure (node.withKids (fappend frag tail))

/-- `invalid_marks(type, fragment, start)` on the children from `start` on -/
def invalidMarks (S : Schema) (ty : TypeId) (rest : List Node) : Bool :=
  rest.any (fun c => !(S.nodeType ty).allowsMarks c.marks)

/-- `content_after_fits` once `node` and `index` are read off the position -/
def contentAfterFitsAt (S : Schema) (node : Node) (index : Nat) (ty : TypeId) (st : Option Nat) :
    FM (Option (List Node)) :=
  if index == node.kids.length && !S.compatibleContent ty (S.tyOf node) then pure none
  else do
    let q ← liftRaise st
    let fit ← fillOpt S (S.dfa ty) q (S.types (node.kids.drop index)) true
    match fit with
    | none => pure none
    | some f => if invalidMarks S ty (node.kids.drop index) then pure none else pure (some f)

/-- `content_after_fits(to, depth, type, match, open)` -/
def contentAfterFits (S : Schema) (rt : RPos) (depth : Nat) (ty : TypeId) (st : Option Nat) (open_ : Bool) :
    FM (Option (List Node)) :=
  if rt.depth < depth then throw .raises
  else contentAfterFitsAt S (rt.node depth) (if open_ then rt.indexAfter depth else rt.index depth) ty st

/-! ### frontier operations -/

/-- `close_frontier_node()` -/
def closeFrontierNode (S : Schema) (fr : List FItem) (placed : List Node) : FM (List FItem × List Node) :=
  match fr.getLast? with
  | none => throw .raises
  | some open_ => do
    let fr' := fr.dropLast
    let q ← getSt open_
    let add ← fillOpt S (S.dfa open_.ty) q [] true
    match add with
    | some a =>
      if a.isEmpty then pure (fr', placed)
      else do
        let p ← addToFragment placed fr'.length a
        pure (fr', p)
    | none => pure (fr', placed)

/-- `n` times `close_frontier_node()` (the loops `while self.depth > d`) -/
def closeMany (S : Schema) : Nat → List FItem → List Node → FM (List FItem × List Node)
  | 0, fr, placed => pure (fr, placed)
  | n + 1, fr, placed => do
    let (fr', p') ← closeFrontierNode S fr placed
    closeMany S n fr' p'

/-- `type.create(attrs, content)` (no marks) -/
def Schema.createNodeO (S : Schema) (ty : TypeId) (attrs : Option Attrs) (content : List Node) : FM Node :=
  if (S.nodeType ty).isText then throw .raises
  else
    match computeAttrs (S.nodeType ty).attrs (attrs.getD []) with
    | .ok a => pure (S.mkNodeO ty a [] content)
    | .error _ => throw .raises

/-- `open_frontier_node(type, attrs, content)` -/
def openFrontierNode (S : Schema) (fr : List FItem) (placed : List Node) (ty : TypeId)
    (attrs : Option Attrs) (content : List Node) : FM (List FItem × List Node) := do
  let depth := fr.length - 1
  let top ← getItem fr depth
  let q ← getSt top
  let top' : FItem := ⟨top.ty, (S.dfa top.ty).matchType q ty⟩
  let node ← S.createNodeO ty attrs content
  let placed' ← addToFragment placed depth [node]
  pure (fr.set depth top' ++ [⟨ty, some 0⟩], placed')

/-- `for w in wrap: self.open_frontier_node(w)` -/
def openMany (S : Schema) : List TypeId → List FItem → List Node → FM (List FItem × List Node)
  | [], fr, placed => pure (fr, placed)
  | w :: ws, fr, placed => do
    let (fr', p') ← openFrontierNode S fr placed w none []
    openMany S ws fr' p'

/-! ### find_fittable -/

/-- the first loop of `find_fittable`: `start_depth` (cut short at an isolating node whose end is
    closed); `total` = `open_start`, the argument counts the remaining iterations -/
def fittableStart (S : Schema) (total : Nat) : Nat → Nat → List Node → Nat → FM Nat
  | 0, _, _, _ => pure total
  | n + 1, d, cur, openEnd =>
    match cur with
    | [] => throw .raises
    | node :: _ =>
      let openEnd := if cur.length > 1 then 0 else openEnd
      if S.isolating node && decide (openEnd ≤ d) then pure d
      else fittableStart S total n (d + 1) node.kids openEnd

/-- the two `return`s of the body of the frontier loop of `find_fittable`, for the frontier item
    `it` at depth `fd`; `none` = neither condition holds -/
def frontierHit (S : Schema) (pass2 : Bool) (sliceDepth : Nat) (parent first : Option Node)
    (it : FItem) (fd : Nat) : FM (Option Fittable) :=
  let d := S.dfa it.ty
  if !pass2 then
    match first with
    | some fst => do
      let q ← getSt it
      if (d.matchType q (S.tyOf fst)).isSome then
        pure (some ⟨sliceDepth, fd, parent, none, none⟩)
      else do
        let inj ← fillOpt S d q [S.tyOf fst] false
        match inj with
        | some inj => pure (some ⟨sliceDepth, fd, parent, some inj, none⟩)
        | none => pure none
    | none =>
      match parent with
      | some p =>
        if S.compatibleContent it.ty (S.tyOf p) then pure (some ⟨sliceDepth, fd, parent, none, none⟩)
        else pure none
      | none => pure none
  else
    match first with
    | some fst => do
      let q ← getSt it
      match findWrappingTypes S d q (S.tyOf fst) with
      | some w => pure (some ⟨sliceDepth, fd, parent, none, some w⟩)
      | none => pure none
    | none => pure none

/-- `if parent and match.match_type(parent.type): break` -/
def frontierBreak (S : Schema) (parent : Option Node) (it : FItem) : FM Bool :=
  match parent with
  | some p => do
    let q ← getSt it
    pure ((S.dfa it.ty).matchType q (S.tyOf p)).isSome
  | none => pure false

/-- the loop `for frontier_depth in range(self.depth, -1, -1)`; the argument is `frontier_depth + 1`.
    `none` = the loop ends (by `break` or exhaustion) without returning a fittable. -/
def scanFrontier (S : Schema) (pass2 : Bool) (sliceDepth : Nat) (parent first : Option Node)
    (fr : List FItem) : Nat → FM (Option Fittable)
  | 0 => pure none
  | fd + 1 => do
    let it ← getItem fr fd
    let hit ← frontierHit S pass2 sliceDepth parent first it fd
    match hit with
    | some f => pure (some f)
    | none => do
      let brk ← frontierBreak S parent it
      if brk then pure none
      else scanFrontier S pass2 sliceDepth parent first fr fd

/-- `parent` and `fragment` for a slice depth -/
def sliceLevel (unplaced : Slice) (sd : Nat) : FM (Option Node × List Node) :=
  if sd = 0 then pure (none, unplaced.content)
  else do
    let c ← contentAt unplaced.content (sd - 1)
    match c with
    | [] => throw .raises
    | p :: _ => pure (some p, p.kids)

/-- the loop `for slice_depth in range(top, -1, -1)`; the argument is `slice_depth + 1` -/
def scanSlice (S : Schema) (pass2 : Bool) (unplaced : Slice) (fr : List FItem) : Nat → FM (Option Fittable)
  | 0 => pure none
  | sd + 1 => do
    let lvl ← sliceLevel unplaced sd
    let r ← scanFrontier S pass2 sd lvl.1 lvl.2.head? fr fr.length
    match r with
    | some f => pure (some f)
    | none => scanSlice S pass2 unplaced fr sd

/-- `find_fittable()` -/
def findFittable (S : Schema) (st : FitState) : FM (Option Fittable) := do
  let u := st.unplaced
  let startDepth ← fittableStart S u.openStart u.openStart 0 u.content u.openEnd
  let r ← scanSlice S false u st.frontier (startDepth + 1)
  match r with
  | some f => pure (some f)
  | none => scanSlice S true u st.frontier (u.openStart + 1)

/-! ### open_more, drop_node -/

/-- `open_more()`; `none` = returns `False` -/
def openMore (st : FitState) : FM (Option FitState) := do
  let u := st.unplaced
  let inner ← contentAt u.content u.openStart
  match inner with
  | [] => pure none
  | first :: _ =>
    if first.isLeaf then pure none
    else
      -- `inner.size + open_start >= content.size - open_end`
      let atEnd := decide (fsize u.content ≤ fsize inner + u.openStart + u.openEnd)
      pure (some { st with unplaced := ⟨u.content, u.openStart + 1, max u.openEnd (if atEnd then u.openStart + 1 else 0)⟩ })

/-- `drop_node()` -/
def dropNode (st : FitState) : FM FitState := do
  let u := st.unplaced
  let inner ← contentAt u.content u.openStart
  if inner.length ≤ 1 && u.openStart > 0 then
    -- `content.size - open_start <= open_start + inner.size`
    let openAtEnd := decide (fsize u.content ≤ u.openStart + u.openStart + fsize inner)
    let c ← dropFromFragment u.content (u.openStart - 1) 1
    pure { st with unplaced := ⟨c, u.openStart - 1, if openAtEnd then u.openStart - 1 else u.openEnd⟩ }
  else do
    let c ← dropFromFragment u.content u.openStart 1
    pure { st with unplaced := ⟨c, u.openStart, u.openEnd⟩ }

/-! ### place_nodes -/

/-- the loop `while taken < fragment.child_count` of `place_nodes`.
    Result: `(taken, match, add)`. -/
def takeLoop (S : Schema) (d : Dfa) (frontTy : TypeId) (openStart : Nat) (openEndCount : Int) (total : Nat) :
    List Node → Nat → Nat → List Node → FM (Nat × Nat × List Node)
  | [], taken, q, add => pure (taken, q, add)
  | next :: rest, taken, q, add =>
    match d.matchType q (S.tyOf next) with
    | none => pure (taken, q, add)
    | some q' =>
      let taken := taken + 1
      if taken > 1 || openStart == 0 || fsize next.kids != 0 then do
        let n ← closeNodeStart S (if taken == 1 then openStart else 0)
          (next.withMarks ((S.nodeType frontTy).allowedMarks next.marks))
          (if taken == total then openEndCount else -1)
        takeLoop S d frontTy openStart openEndCount total rest taken q' (add ++ [n])
      else takeLoop S d frontTy openStart openEndCount total rest taken q add

/-- `for _ in range(open_end_count)`: push the open end of the placed content onto the frontier -/
def pushOpenEnd (S : Schema) : Nat → List Node → List FItem → FM (List FItem)
  | 0, _, fr => pure fr
  | n + 1, cur, fr =>
    match cur.getLast? with
    | none => throw .raises
    | some node => do
      let q ← liftRaise (S.contentMatchAt (S.tyOf node) node.kids node.kids.length)
      pushOpenEnd S n node.kids (fr ++ [⟨S.tyOf node, some q⟩])

/-- the new `unplaced` of `place_nodes` -/
def placeRest (slice : Slice) (sliceDepth taken : Nat) (toEnd : Bool) (openEndCount : Int) : FM Slice :=
  if !toEnd then do
    let c ← dropFromFragment slice.content sliceDepth taken
    pure ⟨c, slice.openStart, slice.openEnd⟩
  else if sliceDepth == 0 then pure Slice.empty
  else do
    let c ← dropFromFragment slice.content (sliceDepth - 1) 1
    pure ⟨c, sliceDepth - 1, if openEndCount < 0 then slice.openEnd else sliceDepth - 1⟩

/-- `fragment = parent.content if parent else slice.content` -/
def Fittable.fragment (fit : Fittable) (slice : Slice) : List Node :=
  match fit.parent with
  | some p => p.kids
  | none => slice.content

/-- `place_nodes(fittable)` -/
def placeNodes (S : Schema) (st : FitState) (fit : Fittable) : FM FitState := do
  let c1 ← closeMany S (st.frontier.length - 1 - fit.frontierDepth) st.frontier st.placed
  let c2 ← openMany S (fit.wrap.getD []) c1.1 c1.2
  let fr := c2.1
  let placed := c2.2
  let slice := st.unplaced
  let fragment := fit.fragment slice
  let openStart := slice.openStart - fit.sliceDepth
  let item ← getItem fr fit.frontierDepth
  let q0 ← getSt item
  let d := S.dfa item.ty
  let add0 := fit.inject.getD []
  let q1 ← liftRaise (d.run q0 (S.types add0))
  let openEndCount0 : Int :=
    ((fsize fragment : Int) + fit.sliceDepth) - ((fsize slice.content : Int) - slice.openEnd)
  let tk ← takeLoop S d item.ty openStart openEndCount0 fragment.length fragment 0 q1 add0
  let taken := tk.1
  let toEnd := taken == fragment.length
  let openEndCount : Int := if toEnd then openEndCount0 else -1
  let placed ← addToFragment placed fit.frontierDepth (fromArray tk.2.2)
  let fr := fr.set fit.frontierDepth ⟨item.ty, some tk.2.1⟩
  let top ← getItem fr (fr.length - 1)
  let c3 ←
    (if toEnd && decide (openEndCount < 0) &&
        (match fit.parent with
         | some p => S.tyOf p == top.ty
         | none => false) && decide (fr.length > 1) then
      closeFrontierNode S fr placed
    else pure (fr, placed))
  let fr ← pushOpenEnd S openEndCount.toNat fragment c3.1
  let unplaced ← placeRest slice fit.sliceDepth taken toEnd openEndCount
  pure ⟨unplaced, fr, c3.2⟩

/-! ### find_close_level, must_move_inline, close -/

/-- the inner loop `for d in range(i - 1, -1, -1)` of `find_close_level`; the argument is `d + 1`;
    `true` = the loop completes (the `else` branch of the `for`) -/
def closeInner (S : Schema) (rt : RPos) (fr : List FItem) : Nat → FM Bool
  | 0 => pure true
  | d + 1 => do
    let it ← getItem fr d
    let r ← contentAfterFits S rt d it.ty it.st true
    match r with
    | none => pure false
    | some l => if !l.isEmpty then pure false else closeInner S rt fr d

/-- `_CloseLevel`: depth, fit, and the position to continue from (`none` = `to` itself) -/
structure CloseLevel where
  depth : Nat
  fit   : List Node
  move  : RPos
deriving Repr, Inhabited

/-- where `close` continues from: `to.doc.resolve(to.after(i + 1)) if drop_inner else to` -/
def closeMove (doc : Node) (rt : RPos) (i : Nat) (dropInner : Bool) : FM RPos :=
  if dropInner then do
    let a ← liftRaise (rt.after (i + 1))
    liftRaise (doc.resolve a)
  else pure rt

/-- `find_close_level(to)`; the argument is `i + 1` -/
def findCloseLevelLoop (S : Schema) (doc : Node) (rt : RPos) (fr : List FItem) : Nat → FM (Option CloseLevel)
  | 0 => pure none
  | i + 1 => do
    let it ← getItem fr i
    -- `drop_inner = i < to.depth and to.end(i + 1) == to.pos + (to.depth - (i + 1))`
    let dropInner := decide (i < rt.depth) && rt.end_ (i + 1) == rt.pos + (rt.depth - (i + 1))
    let r ← contentAfterFits S rt i it.ty it.st dropInner
    match r with
    | none => findCloseLevelLoop S doc rt fr i
    | some fit => do
      let inner ← closeInner S rt fr i
      if inner then do
        let mv ← closeMove doc rt i dropInner
        pure (some ⟨i, fit, mv⟩)
      else findCloseLevelLoop S doc rt fr i

def findCloseLevel (S : Schema) (doc : Node) (rt : RPos) (fr : List FItem) : FM (Option CloseLevel) :=
  findCloseLevelLoop S doc rt fr (min (fr.length - 1) rt.depth + 1)

/-- the loop `while depth > 1` of `must_move_inline`; the argument is `depth` -/
def moveInlineAfter (rt : RPos) : Nat → Nat → Nat
  | 0, after => after
  | 1, after => after
  | d + 2, after => if after != rt.end_ (d + 1) then after else moveInlineAfter rt (d + 1) (after + 1)

/-- `self.to.depth == self.depth and (level := find_close_level(self.to)) and level.depth == self.depth` -/
def moveBlocked (S : Schema) (doc : Node) (rt : RPos) (fr : List FItem) : FM Bool :=
  if rt.depth == fr.length - 1 then do
    let lv ← findCloseLevel S doc rt fr
    match lv with
    | some lv => pure (lv.depth == fr.length - 1)
    | none => pure false
  else pure false

/-- `must_move_inline()`; `none` = `-1` -/
def mustMoveInline (S : Schema) (doc : Node) (rt : RPos) (fr : List FItem) : FM (Option Nat) :=
  if !S.isTextblockO (S.tyOf rt.parent) then pure none
  else do
    let top ← getItem fr (fr.length - 1)
    if !S.isTextblockO top.ty then pure none
    else do
      let fits ← contentAfterFits S rt rt.depth top.ty top.st false
      match fits with
      | none => pure none
      | some _ => do
        let blocked ← moveBlocked S doc rt fr
        if blocked then pure none
        else do
          let after ← liftRaise (rt.after rt.depth)
          pure (some (moveInlineAfter rt rt.depth after))

/-- the loop `for d in range(close.depth + 1, to.depth + 1)` of `close`; `n` = remaining, `d` current -/
def reopen (S : Schema) (mv : RPos) : Nat → Nat → List FItem → List Node → FM (List FItem × List Node)
  | 0, _, fr, placed => pure (fr, placed)
  | n + 1, d, fr, placed => do
    let node := mv.node d
    let add ← fillOpt S (S.dfa (S.tyOf node)) 0 (S.types (node.kids.drop (mv.index d))) true
    let (fr', p') ← openFrontierNode S fr placed (S.tyOf node) (some node.attrs) (add.getD [])
    reopen S mv n (d + 1) fr' p'

/-- `close(to)`; `none` = returns `None` -/
def closeFit (S : Schema) (doc : Node) (rt : RPos) (fr : List FItem) (placed : List Node) :
    FM (Option (RPos × List Node)) := do
  let lv ← findCloseLevel S doc rt fr
  match lv with
  | none => pure none
  | some lv => do
    let c1 ← closeMany S (fr.length - 1 - lv.depth) fr placed
    let placed ← (if !lv.fit.isEmpty then addToFragment c1.2 lv.depth lv.fit else pure c1.2)
    let mv := lv.move
    let c2 ← reopen S mv (mv.depth - lv.depth) (lv.depth + 1) c1.1 placed
    pure (some (mv, c2.2))

/-! ### fit -/

/-- one iteration of the loop `while self.unplaced.size` -/
def fitStep (S : Schema) (st : FitState) : FM FitState := do
  let f ← findFittable S st
  match f with
  | some f => placeNodes S st f
  | none => do
    let o ← openMore st
    match o with
    | some st' => pure st'
    | none => dropNode st

/-- the loop `while self.unplaced.size` -/
def fitLoop (S : Schema) : Nat → FitState → FM FitState
  | 0, st => if st.unplaced.size == 0 then pure st else throw .outOfFuel
  | fuel + 1, st =>
    if st.unplaced.size == 0 then pure st
    else do
      let st' ← fitStep S st
      fitLoop S fuel st'

/-- the final `while open_start and open_end and content.child_count == 1` -/
def normalizeOpen : Nat → List Node → Nat → Nat → List Node × Nat × Nat
  | 0, c, os, oe => (c, os, oe)
  | n + 1, c, os, oe =>
    match c with
    | [only] => if os != 0 && oe != 0 then normalizeOpen n only.kids (os - 1) (oe - 1) else (c, os, oe)
    | _ => (c, os, oe)

/-- `Fitter.__init__`: the frontier of `from` and the open nodes as `placed` -/
def fitInit (S : Schema) (rf : RPos) (sl : Slice) : FM FitState := do
  let fr ← (List.range (rf.depth + 1)).mapM (fun i => do
    let node := rf.node i
    let q ← liftRaise (S.contentMatchAt (S.tyOf node) node.kids (rf.indexAfter i))
    pure (⟨S.tyOf node, some q⟩ : FItem))
  let placed := (List.range rf.depth).foldr (fun i acc => [(rf.node (i + 1)).withKids acc]) []
  pure ⟨sl, fr, placed⟩

/-- the tail of `fit` after `close`: normalisation of the open depths and the choice of the step -/
def fitEmit (rf rt : RPos) (moveInline : Option Nat) (placedSize : Int) (to_ : RPos) (placed : List Node) :
    FM (Option Step) :=
  let n := normalizeOpen (rf.depth + 1) placed rf.depth to_.depth
  let slice : Slice := ⟨n.1, n.2.1, n.2.2⟩
  match moveInline with
  | some p =>
    if placedSize < 0 then throw .negInsert
    else pure (some (.replaceAround rf.pos p rt.pos (rt.end_ rt.depth) slice placedSize.toNat false))
  | none =>
    if slice.size != 0 || rf.pos != rt.pos then pure (some (.replace rf.pos to_.pos slice false))
    else pure none

/-- the target `close` is called with -/
def closeTarget (doc : Node) (rt : RPos) (moveInline : Option Nat) : FM RPos :=
  match moveInline with
  | none => pure rt
  | some p => liftRaise (doc.resolve p)

/-- `Fitter(from, to, slice).fit()`; `.ok none` = returns `None` -/
def fitterFit (S : Schema) (doc : Node) (rf rt : RPos) (sl : Slice) (fuel : Nat) : FM (Option Step) := do
  let st0 ← fitInit S rf sl
  let st ← fitLoop S fuel st0
  let moveInline ← mustMoveInline S doc rt st.frontier
  let placedSize : Int := (fsize st.placed : Int) - (st.frontier.length - 1 : Nat) - rf.depth
  let target ← closeTarget doc rt moveInline
  let c ← closeFit S doc target st.frontier st.placed
  match c with
  | none => pure none
  | some c => fitEmit rf rt moveInline placedSize c.1 c.2

/-! ### the fuel of the `fit` loop (proved sufficient in Proofs/FitTerm.lean) -/

mutual
/-- number of nodes of a tree -/
def Node.ncount : Node → Nat
  | .elem _ _ _ kids => 1 + fcount kids
  | _ => 1
def fcount : List Node → Nat
  | [] => 0
  | n :: ns => n.ncount + fcount ns
end

mutual
/-- height of a tree (a node without children has height 1) -/
def Node.height : Node → Nat
  | .elem _ _ _ kids => 1 + fheight kids
  | _ => 1
def fheight : List Node → Nat
  | [] => 0
  | n :: ns => max n.height (fheight ns)
end

/-- how far `open_more` can ever raise `open_start`: the height of the content (or the present
    `open_start`, should it be larger) -/
def Slice.openBound (u : Slice) : Nat := max (fheight u.content) u.openStart

/-- the termination measure of the loop `while self.unplaced.size`, lexicographic in
    (number of unplaced nodes, how often `open_more` can still succeed, `c`) flattened into one
    number; `c ≤ open_start + 1` counts the wrapper-opening rounds that place nothing
    (Proofs/FitTerm.lean: `cpot`) -/
def fitMeasure (u : Slice) (c : Nat) : Nat :=
  fcount u.content * ((u.openBound + 1) * (u.openBound + 2)) + (u.openBound - u.openStart) * (u.openBound + 2) + c

/-- the fuel `replaceStep` gives the `fit` loop: every iteration places or drops a node of the slice,
    or opens it one level deeper, or opens wrapper nodes without placing anything (at most
    `open_start + 1` times in a row).  `fitLoop_terminates`: this is enough unless the loop reaches
    the one state it maps to itself (empty content, `open_end > 0`). -/
def fitFuel (_S : Schema) (sl : Slice) : Nat :=
  fitMeasure sl (sl.openStart + 1) + 1

/-- `replace_step(doc, from, to, slice)`; `.ok none` = returns `None` -/
def replaceStep (S : Schema) (doc : Node) (f t : Nat) (sl : Slice) : FM (Option Step) :=
  if f == t && sl.size == 0 then pure none
  else
    match doc.resolve f, doc.resolve t with
    | some rf, some rt =>
      match fitsTriviallyR S rf rt sl with
      | none => throw .raises
      | some true => pure (some (.replace f t sl false))
      | some false => fitterFit S doc rf rt sl (fitFuel S sl)
    | _, _ => throw .raises

/-! ### the guard of the termination theorem (Proofs/FitLoop.lean, Props/C11.lean `fitLoop_terminates`) -/

/-- the top-level content ends in a non-leaf node -/
def endsInElem : List Node → Bool
  | [] => false
  | [n] => !n.isLeaf
  | _ :: n :: ns => endsInElem (n :: ns)

/-- **the guard of `fitLoop_terminates`** — the slice's top-level content ends in a non-leaf node
    (whatever its open depths), or it consists of leaf and text nodes only and is closed on both
    sides.  The slices it excludes are those with a non-leaf node in front of a final leaf or text
    node at the top level: `open_more` then sets `open_end ≥ 1` although the last node cannot be
    opened, and once everything has been dropped `size = -open_end` keeps the loop going
    (the example in Props/C11.lean; with the bundled schemas only block leaves such as a
    horizontal rule can follow a non-leaf node, and the run ends with `size = 0`). -/
def Slice.termGuard (u : Slice) : Bool :=
  endsInElem u.content || (u.content.all Node.isLeaf && u.openStart == 0 && u.openEnd == 0)

/-! ### the guard that excludes the finding `C11-fitter-partial-node` -/

/-- walks the slice's *end* spine (`b` = remaining `open_end`, `a` = remaining `open_start`,
    `onStart` = still on the start spine as well): is there a non-leaf node `N` on it whose children
    are not a matchable beginning of `N`'s content expression — as they stand, or (when `N` is on the
    start spine too, `a > 1`, at least two children) with the start-open first child taken apart?
    `Fitter.place_nodes` computes the frontier entry of the re-opened `N` with
    `N.content_match_at(N.child_count)`, which raises `ValueError` on such a node.  The same walk as
    harness/findings.py `partial_node_class` (compared exactly by the tie). -/
def partialNodeOn (S : Schema) : Nat → List Node → Nat → Bool → Bool
  | 0, _, _, _ => false
  | b + 1, frag, a, onStart =>
    match frag.getLast? with
    | none => false
    | some node =>
      if node.isLeaf then false
      else
        let onStart' := onStart && decide (a > 0) && frag.length == 1
        let kids := node.kids
        let d := S.dfa (S.tyOf node)
        let bad (ks : List Node) : Bool := (d.run 0 (S.types ks)).isNone
        if bad kids || (onStart' && decide (a > 1) && decide (kids.length ≥ 2) && bad kids.tail) then true
        else partialNodeOn S b kids (a - 1) onStart'

/-- no partial node on the end spine (decidable guard of the totality statements) -/
def Slice.noPartialNode (S : Schema) (sl : Slice) : Bool :=
  !partialNodeOn S sl.openEnd sl.content sl.openStart true

/-! ### the invariant behind the end half of `fit_emits_wf` (Props/C11.lean), as a decidable predicate -/

/-- `placed` and the frontier are **in step**: the frontier is not empty, every entry holds a match,
    and the last-child chain of non-leaf nodes of `placed` is at least as long as the frontier is deep
    (`add_to_fragment(placed, depth, …)` finds the node the top frontier entry stands for).  A
    specification predicate over the model's state, evaluated by the driver (op `fitEmit`) in the state
    `Fitter.__init__` builds and after every iteration of the loop. -/
def FitState.inStepB (st : FitState) : Bool :=
  !st.frontier.isEmpty && st.frontier.all (fun it => it.st.isSome) &&
    decide (st.frontier.length - 1 ≤ spineR st.placed)

/-- **the frontier is coherent with `placed`** (candidate key invariant for payload validity, Props/C11.lean
    `fit_emits_valid_payload`, not yet proved; evaluated by the driver over every iteration, op `fitEmit`):
    walking the last-child chain of `placed` level by level, the entry of level `i` has the type of the
    node opened there and its match is the state of that type's automaton after the children counted
    at that level.  `g` = the deepest level whose open node is still the one `Fitter.__init__` put there
    (levels are closed and opened at the top only, so these levels form a prefix): for `i ≤ g` the count
    starts from the state `Fitter.__init__` computed (`base[i]`, which already counts the child
    containing `from`, so for `i < D = depth(from)` the first child is skipped); deeper levels were
    opened by the Fitter and count all children from the start state. -/
def frontierCoherentAux (S : Schema) (D g : Nat) (base : List FItem) : Nat → List FItem → List Node → Bool
  | _, [], _ => true
  | i, it :: rest, frag =>
    let s0 : Option Nat := if i ≤ g then (base[i]?).bind (·.st) else some 0
    let kids := if i ≤ g && decide (i < D) then frag.drop 1 else frag
    (match s0 with
     | some s => (S.dfa it.ty).run s (S.types kids) == it.st && it.st.isSome
     | none => false) &&
    (match rest with
     | [] => true
     | nxt :: _ =>
       match frag.getLast? with
       | some n => S.tyOf n == nxt.ty && frontierCoherentAux S D g base (i + 1) rest n.kids
       | none => false)

/-- coherent for some `g ≤ D` -/
def FitState.coherentB (S : Schema) (D : Nat) (base : List FItem) (st : FitState) : Bool :=
  (List.range (D + 1)).any (fun g => frontierCoherentAux S D g base 0 st.frontier st.placed)

/-- every edge of a content automaton is labelled with a node type of the schema (true of every
    compiled schema; decidable guard of `fit_emits_wf`, Props/C11.lean) -/
def Schema.labelsOKB (S : Schema) : Bool :=
  (List.range S.nodes.size).all (fun w => (List.range (S.dfa w).size).all (fun q =>
    ((S.dfa w).edgesOf q).all (fun e => decide (e.1 < S.nodes.size))))

/-- does `p` hold in the given state and after every iteration of the loop of `fit`?  `none` = the
    run raises or runs out of fuel.  (Evaluation helper for hypotheses about the whole run, not a
    model of library code.) -/
def fitLoopAll (S : Schema) (p : FitState → Bool) : Nat → FitState → Option Bool
  | 0, st => if st.unplaced.size == 0 then some (p st) else none
  | fuel + 1, st =>
    if st.unplaced.size == 0 then some (p st)
    else match fitStep S st with
      | .ok st' => (fitLoopAll S p fuel st').map (fun b => b && p st)
      | .error _ => none

/-- **the unplaced slice stays well-formed over the run** (`Slice.wf` in the state `Fitter.__init__`
    builds and after every iteration; vacuously true when the Fitter is not reached).  `place_nodes`
    keeps `open_start` when it stops short of the end of a fragment above the open level (also
    upstream), after which `open_start` can exceed the first-child chain: on such runs this is false.
    Decidable hypothesis of `fit_emits_wf` (Props/C11.lean), evaluated by the driver (op `fitEmit`). -/
def unplacedWfRun (S : Schema) (doc : Node) (f t : Nat) (sl : Slice) : Bool :=
  if f == t && sl.size == 0 then true
  else
    match doc.resolve f, doc.resolve t with
    | some rf, some rt =>
      match fitsTriviallyR S rf rt sl with
      | some false =>
        match fitInit S rf sl with
        | .ok st0 => fitLoopAll S (fun st => st.unplaced.wf) (fitFuel S sl) st0 == some true
        | .error _ => true
      | _ => true
    | _, _ => true

/-! ### decidable hypotheses of the deletion-totality theorem (Props/C11.lean `delete_total`) -/

/-- every generatable type that labels an edge of a content automaton — every type `fill_before` can
    choose — can be created and filled (`create_and_fill()` returns a node: default attributes, a
    filling to a valid end, recursively) -/
def Schema.fillersOKB (S : Schema) : Bool :=
  (List.range S.nodes.size).all (fun w => (List.range (S.dfa w).size).all (fun q =>
    ((S.dfa w).edgesOf q).all (fun e =>
      !S.generatable e.1 || (createAndFill S (S.nodes.size + 1) e.1).isSome)))

mutual
/-- element nodes have a non-text, non-leaf type and carry attributes `type.create` accepts (what
    every node built through the schema satisfies; `Node.check` does not look at it) -/
def Schema.nodeAttrsOK (S : Schema) : Node → Bool
  | .elem t a _ kids =>
    !(S.nodeType t).isText && !(S.nodeType t).isLeaf &&
    (match computeAttrs (S.nodeType t).attrs a with
     | .ok _ => true
     | .error _ => false) && S.kidsAttrsOK kids
  | _ => true
def Schema.kidsAttrsOK (S : Schema) : List Node → Bool
  | [] => true
  | n :: ns => S.nodeAttrsOK n && S.kidsAttrsOK ns
end

/-! ### decidable hypotheses of the inline-insertion totality theorem (Props/C11.lean `insertInline_total`) -/

/-- wrapper types are not the text type; and when pass 2 of `find_fittable` answers with a
    non-empty wrapping `w0 :: …` for a type `x` at state `q`, then `x` does not match at the state
    reached by `w0` either — `place_nodes` reads `frontier[frontier_depth]` *after* opening the
    wrappers, and were `x` to match there it would be placed next to the wrapper instead of inside it,
    leaving `placed` and the frontier out of step (also upstream) -/
def Schema.wrapOKB (S : Schema) : Bool :=
  (List.range S.nodes.size).all (fun w => (!S.wrappable w || !(S.nodeType w).isText) &&
    (List.range (S.dfa w).size).all (fun q => (List.range S.nodes.size).all (fun x =>
      match findWrappingTypes S (S.dfa w) q x with
      | some (w0 :: _) =>
        (match (S.dfa w).matchType q w0 with
         | some q' => ((S.dfa w).matchType q' x).isNone
         | none => true)
      | _ => true)))

/-- the slice is closed and its content consists of leaf / text nodes of types of the schema
    (typed text, hard breaks, images, …) -/
def Slice.inlineLeaves (S : Schema) (sl : Slice) : Bool :=
  sl.openStart == 0 && sl.openEnd == 0 && sl.content.all (fun n => n.isLeaf && decide (S.tyOf n < S.nodes.size))

/-- `Transform.delete_range(f, t)`: the step it records (via `self.delete(f', t')` =
    `self.replace(f', t', Slice.empty)` = `replace_step`); `.ok none` = no step -/
def deleteRangeStep (S : Schema) (doc : Node) (f t : Nat) : FM (Option Step) :=
  match deleteRangeTarget S doc f t with
  | none => throw .raises
  | some (a, b) => replaceStep S doc a b Slice.empty

end PM
