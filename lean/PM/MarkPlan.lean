/-
  PM/MarkPlan.lean — model of the range mark *planners* of `Transform` (transform.py, "mark.js" part):
  `Transform.add_mark` and `Transform.remove_mark`.

  Both walk the document with `nodes_between(from, to, f)` (the callback never returns `False`, so
  every node overlapping the range is visited), collect a list of steps while coalescing adjacent
  ranges, and then apply the collected steps one by one with `self.step` (which raises on failure).
  The model returns **the list of steps in the order the code applies them**; `Tr.stepAll` is the
  `for item in …: self.step(item)` loop.

  Python subtleties reproduced:
  * `parent and parent.type.allows_mark_type(..)`: `Node` defines neither `__bool__` nor `__len__`,
    and `nodes_between` always passes a node (the document at the top level, the child below), so
    the test is `parent.type.allows_mark_type(..)`.
  * in `add_mark` only the *latest* `RemoveMarkStep` (`removing`) can be extended; it is always the
    last element of `removed`.  Likewise `adding` is the last element of `added`.
  * in `remove_mark` the search `for m in matched: if …: found = m` keeps the **last** match.
  * `Fragment.nodes_between` indexes `self.content[i]` while `pos < to`: a `to` beyond the content of
    the document ends in `IndexError` *after* every node was visited and before any step is applied.
-/
import PM.Basic
import PM.Marks
import PM.Resolve
import PM.Step
import PM.Transform
namespace PM

/-! ### the walk: `nodes_between` with the parent the callback receives -/

/-- one call of the `nodes_between` callback: `f(node, pos, parent, index)`; of the parent only the
    type is ever looked at -/
structure NV where
  node  : Node
  pos   : Nat
  pTy   : TypeId
  index : Nat
deriving Repr, Inhabited

mutual
def nodesBetweenPNode : Node → Nat → Nat → Nat → List NV
  | .elem ty _ _ kids, from_, to, start => nodesBetweenP ty kids from_ to start 0
  | _, _, _, _ => []
/-- `Fragment.nodes_between(from, to, f, node_start, parent)` with `parent.type = p`: the same walk as
    `nodesBetween` (PM/Resolve.lean), each visit paired with the type of the parent -/
def nodesBetweenP (p : TypeId) : List Node → Nat → Nat → Nat → Nat → List NV
  | [], _, _, _, _ => []
  | n :: ns, from_, to, start, i =>
    if to = 0 then []
    else
      let sz := n.size
      let here :=
        if from_ < sz then
          ⟨n, start, p, i⟩ ::
            (match n with
             | .elem ty _ _ kids =>
               if fsize kids = 0 then []
               else nodesBetweenP ty kids (from_ - 1) (min (fsize kids) (to - 1)) (start + 1) 0
             | _ => [])
        else []
      here ++ nodesBetweenP p ns (from_ - sz) (to - sz) (start + sz) (i + 1)
end

/-- `doc.nodes_between(from, to, f)`: the visits in order -/
def Schema.docVisits (S : Schema) (doc : Node) (f t : Nat) : List NV :=
  nodesBetweenP (S.tyOf doc) doc.kids f t 0 0

/-- `node.is_inline` (`node.type.is_inline`; the text type is inline by construction:
    `is_block = not (spec.inline or name == "text")`) -/
def Schema.nodeInline (S : Schema) : Node → Bool
  | .text .. => true
  | .leaf t _ _ => (S.nodeType t).isInline
  | .elem t _ _ _ => (S.nodeType t).isInline

/-! ### add_mark -/

/-- the two lists `removed` / `added` of `add_mark`, **latest element first** (so that the head is
    the step `removing` / `adding` points to) -/
structure AddSt where
  removed : List (Nat × Nat × Mark) := []
  added   : List (Nat × Nat) := []
deriving Repr, Inhabited

/-- the body of `for i in range(len(marks))` for one mark `x = marks[i]` -/
def addMarkDisplace (newSet : Marks) (start end_ : Nat) (removed : List (Nat × Nat × Mark)) (x : Mark) :
    List (Nat × Nat × Mark) :=
  if x.isInSet newSet then removed
  else
    match removed with
    | (a, b, y) :: rest =>
      if b == start && y == x then (a, end_, y) :: rest      -- `removing.to = end`
      else (start, end_, x) :: removed
    | [] => [(start, end_, x)]

/-- `if adding and adding.to == start: adding.to = end  else: adding = AddMarkStep(..); added.append(adding)` -/
def addMarkExtend (start end_ : Nat) : List (Nat × Nat) → List (Nat × Nat)
  | (a, b) :: rest => if b == start then (a, end_) :: rest else (start, end_) :: (a, b) :: rest
  | [] => [(start, end_)]

/-- the callback of `add_mark` on one visited node -/
def addMarkVisit (S : Schema) (f t : Nat) (m : Mark) (st : AddSt) (v : NV) : AddSt :=
  if !S.nodeInline v.node then st
  else
    let marks := v.node.marks
    if !m.isInSet marks && (S.nodeType v.pTy).allowsMarkType m.ty then
      let start := max v.pos f
      let end_ := min (v.pos + v.node.size) t
      let newSet := m.addToSet S marks
      { removed := marks.foldl (addMarkDisplace newSet start end_) st.removed
        added := addMarkExtend start end_ st.added }
    else st

def AddSt.steps (m : Mark) (st : AddSt) : List Step :=
  st.removed.reverse.map (fun r => Step.removeMark r.1 r.2.1 r.2.2) ++
  st.added.reverse.map (fun r => Step.addMark r.1 r.2 m)

/-- the steps `Transform.add_mark(from, to, mark)` collects, in the order it applies them: first
    every `RemoveMarkStep` for a displaced mark, then the `AddMarkStep`s (no bound check, see
    `planAddMark`) -/
def planAddMarkSteps (S : Schema) (doc : Node) (f t : Nat) (m : Mark) : List Step :=
  ((S.docVisits doc f t).foldl (addMarkVisit S f t m) {}).steps m

/-- `.error .internal` = the `IndexError` of `nodes_between` when `to` lies beyond the document -/
def planAddMark (S : Schema) (doc : Node) (f t : Nat) (m : Mark) : Res (List Step) :=
  if fsize doc.kids < t then .error .internal else .ok (planAddMarkSteps S doc f t m)

/-! ### remove_mark -/

/-- the third argument of `remove_mark`: a `Mark`, a `MarkType`, or `None` (all marks) -/
inductive MarkSel where
  | exact (m : Mark)
  | type (t : MarkTypeId)
  | all
deriving Repr, Inhabited, DecidableEq

/-- a mark is one the selector asks to remove -/
def MarkSel.matches : MarkSel → Mark → Bool
  | .exact m, x => x == m
  | .type t, x => x.ty == t
  | .all, _ => true

/-- first occurrences, in order -/
def dedupMarks : Marks → Marks
  | [] => []
  | x :: xs => x :: (dedupMarks xs).filter (· != x)

/-- `to_remove` of one node.  For a mark type the code repeatedly takes the first mark of that type
    (`MarkType.is_in_set`) and strikes every mark equal to it (`Mark.remove_from_set`): the distinct
    marks of that type in order of first occurrence.  `None`/`[]` both skip the node. -/
def MarkSel.toRemove (sel : MarkSel) (marks : Marks) : Marks :=
  match sel with
  | .exact m => if m.isInSet marks then [m] else []
  | .type t => dedupMarks (marks.filter (·.ty == t))
  | .all => marks

/-- an element of `matched` -/
structure Matched where
  style : Mark
  from_ : Nat
  to    : Nat
  step  : Nat
deriving Repr, Inhabited

/-- replace by `g e` the **last** element `e` with `p e`; `none` if there is none -/
def updLast {α} (p : α → Bool) (g : α → α) : List α → Option (List α)
  | [] => none
  | e :: es =>
    match updLast p g es with
    | some es' => some (e :: es')
    | none => if p e then some (g e :: es) else none

/-- the body of `for style in to_remove` -/
def removeMarkStyle (from_ end_ step : Nat) (matched : List Matched) (style : Mark) : List Matched :=
  match updLast (fun e => e.step == step - 1 && style == e.style)
      (fun e => { e with to := end_, step := step }) matched with
  | some m' => m'
  | none => matched ++ [⟨style, from_, end_, step⟩]

/-- the callback of `remove_mark` on one visited node; the state is `(matched, step)` -/
def removeMarkVisit (S : Schema) (f t : Nat) (sel : MarkSel) (st : List Matched × Nat) (v : NV) :
    List Matched × Nat :=
  if !S.nodeInline v.node then st
  else
    let step := st.2 + 1
    let end_ := min (v.pos + v.node.size) t
    ((sel.toRemove v.node.marks).foldl (removeMarkStyle (max v.pos f) end_ step) st.1, step)

/-- the steps `Transform.remove_mark(from, to, mark)` collects, in order (no bound check) -/
def planRemoveMarkSteps (S : Schema) (doc : Node) (f t : Nat) (sel : MarkSel) : List Step :=
  ((S.docVisits doc f t).foldl (removeMarkVisit S f t sel) ([], 0)).1.map
    (fun e => Step.removeMark e.from_ e.to e.style)

def planRemoveMark (S : Schema) (doc : Node) (f t : Nat) (sel : MarkSel) : Res (List Step) :=
  if fsize doc.kids < t then .error .internal else .ok (planRemoveMarkSteps S doc f t sel)

/-! ### applying the collected steps: `for item in …: self.step(item)` -/

/-- `Transform.step`: apply and record, or raise (`TransformError` for a failed result, which is
    `Err.failed` already; an exception raised inside `apply` propagates unchanged) -/
def Tr.step (S : Schema) (tr : Tr) (st : Step) : Res Tr :=
  match S.apply st tr.doc with
  | .ok d => .ok (tr.addStep st d)
  | .error e => .error e

/-- the loop; the first failing step aborts the operation -/
def Tr.stepAll (S : Schema) (tr : Tr) : List Step → Res Tr
  | [] => .ok tr
  | s :: ss =>
    match tr.step S s with
    | .ok tr' => tr'.stepAll S ss
    | .error e => .error e

/-- the document after applying a list of steps in order (what `Tr.stepAll` leaves in `doc`) -/
def Schema.applyAll (S : Schema) : List Step → Node → Res Node
  | [], doc => .ok doc
  | s :: ss, doc =>
    match S.apply s doc with
    | .ok d => S.applyAll ss d
    | .error e => .error e

/-- `Transform.add_mark` -/
def Tr.addMark (S : Schema) (tr : Tr) (f t : Nat) (m : Mark) : Res Tr :=
  match planAddMark S tr.doc f t m with
  | .ok sts => tr.stepAll S sts
  | .error e => .error e

/-- `Transform.remove_mark` -/
def Tr.removeMark (S : Schema) (tr : Tr) (f t : Nat) (sel : MarkSel) : Res Tr :=
  match planRemoveMark S tr.doc f t sel with
  | .ok sts => tr.stepAll S sts
  | .error e => .error e

end PM
