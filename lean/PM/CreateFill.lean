/-
  PM/CreateFill.lean — model of schema.py: NodeType.create_checked and NodeType.create_and_fill
  (with the filler nodes that content.py: ContentMatch.fill_before builds through
  `tp.create_and_fill()`).

  Outcomes are explicit (`Built`): a node, `None`, an exception, and two outcomes that say where the
  model's universe ends instead of silently picking a value:
  * `textType` — called on the text node type, the real code hands back a plain `Node` object of the
    text type (not a `TextNode`), which is not a value of the model's `Node`;
  * `outOfFuel` — the model's recursion guard.  The real code recurses without bound
    (`RecursionError`) when a filler type needs itself as a filler; see `createAndFill_fuel_mono`
    in Proofs/CreateFill.lean (an answer other than `outOfFuel` does not depend on the fuel).
-/
import PM.Basic
import PM.Marks
import PM.Fragment
import PM.Content
import PM.Step
import PM.Fill
namespace PM

inductive Built where
  | node (n : Node)
  | nothing              -- the code returns `None`
  | raises (e : Err)
  | textType
  | outOfFuel
deriving Repr, Inhabited, DecidableEq

/-- `Node(type, attrs, content, marks)`: the model's constructor records leaf-ness (a leaf type's
    automaton accepts only the empty sequence, so its content is empty whenever it is valid) -/
def Schema.mkNode (S : Schema) (t : TypeId) (a : Attrs) (m : Marks) (kids : List Node) : Node :=
  if (S.nodeType t).isLeaf && kids.isEmpty then .leaf t a m else .elem t a m kids

/-- `Fragment.append` with the code's own tests (`if not other.size` / `if not self.size`, then a
    text merge at the seam) -/
def fappendSz (a b : List Node) : List Node :=
  if fsize b == 0 then a
  else if fsize a == 0 then b
  else match b with
    | [] => a
    | c :: rest => addNode a c ++ rest

/-- `NodeType.create_checked(attrs, content, marks)`: validity test first, then the attributes -/
def Schema.createChecked (S : Schema) (t : TypeId) (attrs : Attrs) (content : List Node) (marks : Marks) : Built :=
  if !S.validContent t content then .raises .valueError
  else
    match computeAttrs (S.nodeType t).attrs attrs with
    | .error e => .raises e
    | .ok a =>
      if (S.nodeType t).isText then .textType
      else .node (S.mkNode t a (setFrom marks) content)

/-- the list comprehension `[tp.create_and_fill() for tp in types]` of `fill_before`: evaluated in
    order, an exception stops it, `None` results are kept in the list -/
def fillNodesWith (mk : TypeId → Built) : List TypeId → Except Built (List (Option Node))
  | [] => .ok []
  | tp :: rest =>
    match mk tp with
    | .node n => (fillNodesWith mk rest).map (some n :: ·)
    | .nothing => (fillNodesWith mk rest).map (none :: ·)
    | other => .error other

/-- `Fragment.from_(list)` on that list: a `None` element makes `from_array` fail on `.node_size`
    (AttributeError) -/
def fragOfOpts (l : List (Option Node)) : Except Built (List Node) :=
  match l.mapM id with
  | some nodes => .ok (fromArray nodes)
  | none => .error (.raises .internal)

/-- `ContentMatch.fill_before(after, to_end)` as a fragment: the type search of `PM.fillBefore`, then
    the filler nodes; `.error .nothing` = the search found nothing -/
def Schema.fillFragment (S : Schema) (mk : TypeId → Built) (d : Dfa) (q : Nat) (after : List TypeId)
    (toEnd : Bool) : Except Built (List Node) :=
  match fillBefore d S.generatable q after toEnd with
  | none => .error .nothing
  | some types =>
    match fillNodesWith mk types with
    | .error b => .error b
    | .ok opts => fragOfOpts opts

/-- the `if frag.size:` block of `create_and_fill`: fillers in front of the given content -/
def Schema.fillFront (S : Schema) (mk : TypeId → Built) (t : TypeId) (content : List Node) :
    Except Built (List Node) :=
  if fsize content != 0 then
    (S.fillFragment mk (S.dfa t) 0 (S.types content) false).map (fun before => fappendSz before content)
  else .ok content

/-- `NodeType.create_and_fill(attrs, content, marks)` -/
def Schema.createAndFill (S : Schema) : (fuel : Nat) → TypeId → Attrs → List Node → Marks → Built
  | 0, _, _, _, _ => .outOfFuel
  | fuel + 1, t, attrs, content, marks =>
    let nt := S.nodeType t
    let mk := fun tp => S.createAndFill fuel tp [] [] []
    match computeAttrs nt.attrs attrs with
    | .error e => .raises e
    | .ok a =>
      -- content carrying marks the type does not allow: nothing can be built around it
      if !content.all (fun c => nt.allowsMarks c.marks) then .nothing
      else
        match S.fillFront mk t content with
        | .error b => b
        | .ok frag =>
          match (S.dfa t).run 0 (S.types frag) with
          | none => .nothing
          | some matched =>
            match S.fillFragment mk (S.dfa t) matched [] true with
            | .error b => b
            | .ok after =>
              if nt.isText then .textType
              else .node (S.mkNode t a (setFrom marks) (fappendSz frag after))

/-- fuel that is enough unless the real code recurses for ever: below the top call every nested call
    is `tp.create_and_fill()` with no arguments, so a type occurring twice on the call stack repeats -/
def Schema.fillFuel (S : Schema) : Nat := S.nodes.size + 2

end PM
