/-
  PM/Structure.lean — model of the three helpers that keep range expansion, lifting and splitting
  from crossing an `isolating` node (property C18):

  * `covered_depths(from, to)`            — prosemirror/transform/replace.py
  * `can_cut`, `lift_target(NodeRange)`   — prosemirror/transform/structure.py
  * `can_split(doc, pos, depth)`          — prosemirror/transform/structure.py (`types_after = None`)

  The order of the tests is the order of the code (which answer comes out is observable: a
  `content_match_at` on invalid content raises, a short-circuited test does not).  `none` = the code
  raises (position out of range, `IndexError` on a path access, `ValueError` of `content_match_at`).
-/
import PM.Basic
import PM.Fragment
import PM.Content
import PM.Resolve
namespace PM

/-- `node.type.spec.get("isolating")` (truthiness; the schema dump stores `bool(...)`) -/
def Schema.isolating (S : Schema) (n : Node) : Bool := (S.nodeType (S.tyOf n)).isolating

/-- `node.inline_content` (= `node.type.inline_content`) -/
def Schema.inlineContent (S : Schema) (n : Node) : Bool := (S.nodeType (S.tyOf n)).inlineContent

/-- `node.can_replace(from, to, replacement)` on a node value.  `none` = the call raises:
    `content_match_at(from)` walks children `0 .. from-1`, so `from > child_count` ends in an
    `IndexError` (or in the `ValueError` of `content_match_at` if the automaton dies first);
    a `to` beyond the child count only makes the second walk empty. -/
def Schema.nodeCanReplace (S : Schema) (n : Node) (from_ to : Nat) (repl : List Node) : Option Bool :=
  if n.kids.length < from_ then none
  else S.canReplace (S.tyOf n) n.kids from_ to repl 0 repl.length

/-- `node.can_replace_with(from, to, type)` (no marks) on a node value; `none` as above -/
def Schema.nodeCanReplaceWith (S : Schema) (n : Node) (from_ to : Nat) (ty : TypeId) : Option Bool :=
  if n.kids.length < from_ then none
  else S.canReplaceWith (S.tyOf n) n.kids from_ to ty []

/-! ### covered_depths -/

/-- the `break` test of the loop at depth `d`, in the order of the code:
    `start < from.pos - (from.depth - d)`, `to.end(d) > to.pos + (to.depth - d)`,
    `from.node(d)` isolating, `to.node(d)` isolating.
    (`a < b - c` is written `a + c < b`; the two agree over the integers.) -/
def coveredBreak (S : Schema) (f t : RPos) (d : Nat) : Bool :=
  decide (f.start d + (f.depth - d) < f.pos) ||
  decide (t.pos + (t.depth - d) < t.end_ d) ||
  S.isolating (f.node d) ||
  S.isolating (t.node d)

/-- the `result.append(d)` test: `start == to.start(d)`, or both positions are directly inside
    textblocks at depth `d ≥ 1` and `to.start(d - 1) == start - 1` -/
def coveredHit (S : Schema) (f t : RPos) (d : Nat) : Bool :=
  f.start d == t.start d ||
  (d == f.depth && d == t.depth && S.inlineContent f.parent && S.inlineContent t.parent &&
    d != 0 && t.start (d - 1) + 1 == f.start d)

/-- the loop `for d in range(min_depth, -1, -1)`; the argument is `d + 1` -/
def coveredLoop (S : Schema) (f t : RPos) : Nat → List Nat
  | 0 => []
  | d + 1 =>
    if coveredBreak S f t d then []
    else if coveredHit S f t d then d :: coveredLoop S f t d
    else coveredLoop S f t d

/-- `covered_depths(from, to)` on resolved positions -/
def coveredDepthsR (S : Schema) (f t : RPos) : List Nat :=
  coveredLoop S f t (min f.depth t.depth + 1)

/-- `covered_depths(doc.resolve(f), doc.resolve(t))`; `none` = a position does not resolve -/
def coveredDepths (S : Schema) (doc : Node) (f t : Nat) : Option (List Nat) :=
  match doc.resolve f, doc.resolve t with
  | some rf, some rt => some (coveredDepthsR S rf rt)
  | _, _ => none

/-! ### can_cut, lift_target -/

/-- `can_cut(node, start, end)`:
    `if start == 0 or node.can_replace(start, node.child_count):
         return end == node.child_count or node.can_replace(0, end)
     return False` -/
def Schema.canCut (S : Schema) (node : Node) (start end_ : Nat) : Option Bool :=
  let first : Option Bool :=
    if start = 0 then some true else S.nodeCanReplace node start node.kids.length []
  match first with
  | none => none
  | some false => some false
  | some true =>
    if end_ = node.kids.length then some true else S.nodeCanReplace node 0 end_ []

/-- the first test of the loop body: `depth < range.depth and node.can_replace(index, end_index, content)` -/
def liftHit (S : Schema) (f t : RPos) (rangeDepth : Nat) (content : List Node) (depth : Nat) :
    Option Bool :=
  if depth < rangeDepth then
    S.nodeCanReplace (f.node depth) (f.index depth) (t.indexAfter depth) content
  else some false

/-- the `while True` loop of `lift_target`, started at `depth`.
    Result: `some (some d)` = `return d`, `some none` = `break` (returns `None`), `none` = raises.
    At depth 0 the `depth == 0` disjunct short-circuits, so neither `isolating` nor `can_cut`
    is looked at there. -/
def liftLoop (S : Schema) (f t : RPos) (rangeDepth : Nat) (content : List Node) :
    Nat → Option (Option Nat)
  | 0 =>
    match liftHit S f t rangeDepth content 0 with
    | none => none
    | some true => some (some 0)
    | some false => some none
  | d + 1 =>
    match liftHit S f t rangeDepth content (d + 1) with
    | none => none
    | some true => some (some (d + 1))
    | some false =>
      if S.isolating (f.node (d + 1)) then some none
      else
        match S.canCut (f.node (d + 1)) (f.index (d + 1)) (t.indexAfter (d + 1)) with
        | none => none
        | some false => some none
        | some true => liftLoop S f t rangeDepth content d

/-- `lift_target(NodeRange(from, to, depth))` on resolved positions.  `none` when
    `depth > from.depth` (`from.node(depth)`: IndexError) or `depth > to.depth`
    (`to.index_after(depth)`: IndexError), or when a `content_match_at` raises. -/
def liftTargetR (S : Schema) (f t : RPos) (depth : Nat) : Option (Option Nat) :=
  if f.depth < depth || t.depth < depth then none
  else
    let content := cutByIndex (f.node depth).kids (f.index depth) (t.indexAfter depth)
    liftLoop S f t depth content depth

/-- `lift_target(NodeRange(doc.resolve(f), doc.resolve(t), depth))` -/
def liftTarget (S : Schema) (doc : Node) (f t : Nat) (depth : Nat) : Option (Option Nat) :=
  match doc.resolve f, doc.resolve t with
  | some rf, some rt => liftTargetR S rf rt depth
  | _, _ => none

/-! ### can_split (types_after = None) -/

/-- the `while d > base` loop followed by the final `can_replace_with`; the argument counts the
    remaining iterations, the current depth is `d = base + n` (so `n + 1 ↦ d = base + n + 1`). -/
def splitLoop (S : Schema) (r : RPos) (base : Nat) : Nat → Option Bool
  | 0 =>
    -- `pos_.node(base + 1).type` is evaluated as an argument: IndexError when `base = pos_.depth`
    if r.depth < base + 1 then none
    else
      S.nodeCanReplaceWith (r.node base) (r.indexAfter base) (r.indexAfter base)
        (S.tyOf (r.node (base + 1)))
  | n + 1 =>
    let d := base + n + 1
    let node := r.node d
    let index := r.index d
    if S.isolating node then some false
    else
      let rest := cutByIndex node.kids index node.kids.length
      match S.nodeCanReplace node (index + 1) node.kids.length [] with
      | none => none
      | some false => some false
      | some true =>
        if !S.validContent (S.tyOf node) rest then some false
        else splitLoop S r base n

/-- `can_split` after `pos_ = doc.resolve(pos)`.  The guard, in order:
    `base < 0`, parent isolating, `not parent.can_replace(index, child_count)`,
    `not parent.type.valid_content(parent.content.cut_by_index(index, child_count))`. -/
def canSplitR (S : Schema) (r : RPos) (depth : Nat) : Option Bool :=
  if r.depth < depth then some false
  else
    let base := r.depth - depth
    let parent := r.parent
    let index := r.index r.depth
    if S.isolating parent then some false
    else
      match S.nodeCanReplace parent index parent.kids.length [] with
      | none => none
      | some false => some false
      | some true =>
        if !S.validContent (S.tyOf parent) (cutByIndex parent.kids index parent.kids.length) then
          some false
        else splitLoop S r base (depth - 1)

/-- `can_split(doc, pos, depth)`; `none` = raises (position out of range; `depth = 0` reaching the
    final `pos_.node(base + 1)`; `content_match_at` on invalid content) -/
def canSplit (S : Schema) (doc : Node) (pos depth : Nat) : Option Bool :=
  match doc.resolve pos with
  | some r => canSplitR S r depth
  | none => none

/-- the one thing `can_split` does not look at: when the cut falls *inside* a text child, the left half of
    the parent ends with the first part of that text, and `can_replace(index, child_count)` only validates
    the children *before* it.  The guard asks for `can_replace(index + 1, child_count)` in that case
    (true for every `text*` / `inline*` textblock; false e.g. for content `(text image)*` cut inside the
    text, where `can_split` approves and `split` then fails). -/
def splitGuardR (S : Schema) (r : RPos) : Bool :=
  r.textOffset == 0 ||
    S.nodeCanReplace r.parent (r.index r.depth + 1) r.parent.kids.length [] == some true

def splitGuard (S : Schema) (doc : Node) (pos : Nat) : Bool :=
  match doc.resolve pos with
  | some r => splitGuardR S r
  | none => true

end PM
