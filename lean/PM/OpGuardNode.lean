/-
  PM/OpGuardNode.lean — the guard of the C04 undo theorems for node-level steps (`AttrStep`, `DocAttrStep`,
  `AddNodeMarkStep`, `RemoveNodeMarkStep`), executable (driver request `nodeStepGuard`): the exactness of the
  attributes in the document (`attrsExact`), and for node-mark steps the three guards of `nodeMark_undo` on the
  node the step addresses.  Proved to imply `FamilyGuard`: `nodeStepGuardB_family` (Props/C04.lean).
-/
import PM.Basic
import PM.Marks
import PM.Resolve
import PM.Step
namespace PM

mutual
/-- every node carries its attributes the way the library builds them (`compute_attrs` would return them unchanged) -/
def attrsExact (S : Schema) : Node → Bool
  | .text .. => true
  | .leaf t a _ => (match computeAttrs (S.nodeType t).attrs a with
      | .ok a' => a' == a
      | .error _ => false)
  | .elem t a _ kids => (match computeAttrs (S.nodeType t).attrs a with
      | .ok a' => a' == a
      | .error _ => false) && attrsExactKids S kids
def attrsExactKids (S : Schema) : List Node → Bool
  | [] => true
  | n :: ns => attrsExact S n && attrsExactKids S ns
end

/-- no two different marks of one type -/
def uniqueMarkTypes (ms : Marks) : Bool :=
  ms.all (fun x => ms.all (fun y => x.ty != y.ty || x == y))

/-- the parts of the guard of a node-level step on the document `d` it is applied to:
    `(attributes exact, add_to_set does not shrink the set, one mark per type, exclusion symmetric against the
    new mark)`; `none` for the four range kinds -/
def nodeStepGuardParts (S : Schema) (s : Step) (d : Node) : Option (Bool × Bool × Bool × Bool) :=
  match s with
  | .attr _ _ _ => some (attrsExact S d, true, true, true)
  | .docAttr _ _ => some (attrsExact S d, true, true, true)
  | .addNodeMark pos m =>
    match d.nodeAt pos with
    | .ok (some n) =>
      some (attrsExact S d, decide (n.marks.length ≤ (m.addToSet S n.marks).length), uniqueMarkTypes n.marks,
        n.marks.all (fun x => !S.excludes m.ty x.ty || S.excludes x.ty m.ty))
    | _ => some (attrsExact S d, true, true, true)
  | .removeNodeMark pos _ =>
    match d.nodeAt pos with
    | .ok (some n) => some (attrsExact S d, true, uniqueMarkTypes n.marks, true)
    | _ => some (attrsExact S d, true, true, true)
  | _ => none

def nodeStepGuardB (S : Schema) (s : Step) (d : Node) : Bool :=
  match nodeStepGuardParts S s d with
  | some (a, b, c, e) => a && b && c && e
  | none => false

end PM
