/-
  PM/FragOps.lean — the `Fragment` *object* of prosemirror/model/fragment.py, line by line: the child list together
  with the **stored** `size` field, the constructors (`Fragment(content[, size])`, `from_array`, `from_`) and the
  copy-on-write operations (`append`, `cut`, `cut_by_index`, `replace_child`, `add_to_start`, `add_to_end`), the
  accessors (`child`, `maybe_child`, `first_child`, `last_child`, `child_count`), `eq` and `find_index`.

  Everywhere else the model works on plain child lists and recomputes sizes (`fsize`); the real object *caches* its
  size (`Fragment.__init__(content, size)` trusts the caller's `size`), and most operations pass an incrementally
  maintained size to the constructor.  Here the cache is a field of its own, so that a stale cache is representable,
  the operations read the cache exactly where the code reads `self.size`, and "the cache is right"
  (`Frag.WF`: `size = fsize content`) is a theorem about every constructor (Proofs/FragOps.lean, Props/C02.lean)
  instead of a modelling assumption.  The list-level functions of PM/Fragment.lean (`fromArray`, `fappend`, `fcut`,
  `cutByIndex`, `replaceChild`, `findIndex`) are proved to be the content of these on well-formed inputs.

  Python specifics kept: list indexing with a negative index wraps around (`child`, `replace_child`), slices clamp
  (`cut_by_index`), `not x` on an int / list / None, `assert`s (AssertionError = `.internal`), `IndexError` =
  `.internal`, `ValueError` = `.valueError`.  Node objects define neither `__eq__` nor `__len__`/`__bool__`/`__iter__`:
  `==` between nodes is identity, a node is truthy and not iterable.
-/
import PM.Basic
import PM.Fragment
namespace PM

/-- a `Fragment` object: `content` and the stored `size` (an arbitrary Python int: the constructor does not check
    it, and `replace_child` on a stale cache can make it negative) -/
structure Frag where
  content : List Node
  size    : Int
deriving Repr, DecidableEq, Inhabited

/-- `Fragment(content)` (no `size` argument): `sum(c.node_size for c in content)` -/
def Frag.ofList (c : List Node) : Frag := ⟨c, fsize c⟩

/-- `Fragment.empty = Fragment([], 0)` -/
def Frag.empty : Frag := ⟨[], 0⟩

/-- the cache is right -/
def Frag.WF (f : Frag) : Prop := f.size = (fsize f.content : Int)

instance (f : Frag) : Decidable f.WF := by unfold Frag.WF; infer_instance

/-! ### Python list indexing and slicing -/

/-- `l[i]` for a list of length `len`: the list position read, `none` = `IndexError`.
    `-len ≤ i < 0` wraps around to `len + i`. -/
def pyIdx (len : Nat) (i : Int) : Option Nat :=
  if 0 ≤ i then (if i.toNat < len then some i.toNat else none)
  else if -(len : Int) ≤ i then some (i + len).toNat
  else none

/-- a slice bound: negative bounds count from the end, everything is clamped into `[0, len]` -/
def pyClamp (len : Nat) (i : Int) : Nat :=
  if i < 0 then (i + len).toNat else min i.toNat len

/-- `l[from_:to]` (`to = none` is Python's `None`: up to the end) -/
def pySlice {α} (l : List α) (from_ : Int) (to : Option Int) : List α :=
  let a := pyClamp l.length from_
  let b := match to with
    | none => l.length
    | some t => pyClamp l.length t
  (l.take b).drop a

/-! ### accessors -/

/-- a list read that raises `IndexError` when there is nothing -/
def orIndexError {α} : Option α → Res α
  | some a => .ok a
  | none => .error .internal

/-- `child_count` -/
def Frag.childCount (f : Frag) : Nat := f.content.length

/-- `child(index)`: `self.content[index]` — **not** guarded: a negative index wraps around, out of range is
    `IndexError` -/
def Frag.child (f : Frag) (index : Int) : Res Node :=
  match pyIdx f.content.length index with
  | none => .error .internal
  | some k => orIndexError f.content[k]?

/-- `maybe_child(index)`: guarded — `index < 0` is `None`, an `IndexError` is `None` -/
def Frag.maybeChild (f : Frag) (index : Int) : Option Node :=
  if index < 0 then none else f.content[index.toNat]?

/-- `first_child`: `self.content[0] if self.content else None` -/
def Frag.firstChild (f : Frag) : Option Node := f.content.head?

/-- `last_child`: `self.content[-1] if self.content else None` -/
def Frag.lastChild (f : Frag) : Option Node := f.content.getLast?

/-! ### from_array / from_ -/

/-- the join test of the loop, `i and is_text(node) and array[i - 1].same_markup(node)`, with `pre = array[0:i]` -/
def faJoinTest (pre : List Node) (node : Node) : Bool :=
  !pre.isEmpty && node.isText && (match pre.getLast? with | some p => p.sameMarkup node | none => false)

/-- the `for i in range(len(array))` loop of `Fragment.from_array`.  `pre = array[0:i]` (so `i` is truthy iff `pre`
    is non-empty and `array[i-1]` is its last element), the list argument is `array[i:]`; state: `joined`
    (`none` = Python's `None`; it is never the empty list, being `array[0:i]` with `i ≥ 1` when created) and `size`.
    `assert isinstance(last, TextNode)` = the `.internal` branch. -/
def fromArrayLoop (pre : List Node) : List Node → Option (List Node) → Int → Res (Option (List Node) × Int)
  | [], joined, size => .ok (joined, size)
  | node :: rest, joined, size =>
    let size := size + node.size                                  -- size += node.node_size
    if faJoinTest pre node then
      let j := joined.getD pre                                    -- if not joined: joined = array[0:i]
      match j.getLast?, node with                                 -- last = joined[-1]
      | some (.text ls _), .text s m =>                           -- joined[-1] = node.with_text(last.text + node.text)
        fromArrayLoop (pre ++ [node]) rest (some (j.dropLast ++ [.text (ls ++ s) m])) size
      | _, _ => .error .internal                                  -- assert isinstance(last, TextNode)
    else
      match joined with
      | some j => fromArrayLoop (pre ++ [node]) rest (some (j ++ [node])) size   -- elif joined: joined.append(node)
      | none => fromArrayLoop (pre ++ [node]) rest none size

/-- `Fragment.from_array(array)`: `cls(joined or array, size)` — the size handed to the constructor is the sum over
    the *input* nodes -/
def Frag.fromArray (array : List Node) : Res Frag :=
  if array.isEmpty then .ok Frag.empty
  else
    match fromArrayLoop [] array none 0 with
    | .ok (joined, size) => .ok ⟨joined.getD array, size⟩
    | .error e => .error e

/-- the argument of `Fragment.from_` -/
inductive FromArg where
  | none                       -- None
  | frag (f : Frag)            -- a Fragment (truthy: no `__len__`/`__bool__`)
  | list (l : List Node)       -- a list / tuple of nodes
  | node (n : Node)            -- a single node (truthy, not iterable, has `attrs`)
deriving Repr

/-- `Fragment.from_(nodes)` -/
def Frag.from_ : FromArg → Res Frag
  | .none => .ok Frag.empty
  | .frag f => .ok f
  | .list l => if l.isEmpty then .ok Frag.empty else Frag.fromArray l
  | .node n => .ok ⟨[n], n.size⟩

/-! ### append -/

/-- `append(other)`: the two emptiness tests read the *stored* sizes; one text merge at the seam; the size handed
    to the constructor is the sum of the stored sizes -/
def Frag.append (self other : Frag) : Res Frag :=
  if other.size = 0 then .ok self                                 -- if not other.size
  else if self.size = 0 then .ok other                            -- if not self.size
  else
    match self.lastChild, other.firstChild with
    | none, _ => .error .internal                                 -- assert last is not None
    | some _, none => .error .internal                            -- assert first is not None
    | some last, some first =>
      if last.isText && last.sameMarkup first then
        match last, first with
        | .text a m, .text b _ =>                                 -- content[-1] = last.with_text(last.text + first.text); i = 1
          .ok ⟨self.content.dropLast ++ [.text (a ++ b) m] ++ other.content.drop 1, self.size + other.size⟩
        | _, _ => .error .internal                                -- assert isinstance(first, TextNode)
      else .ok ⟨self.content ++ other.content, self.size + other.size⟩

/-! ### cut / cut_by_index -/

/-- `cut(from_, to=None)`: `to` defaults to the stored size, "everything" is recognised with the stored size; the
    loop is `fcutLoop` of PM/Fragment.lean (it runs off the end — `IndexError` — if `to` exceeds the real size); the
    result's size is summed over the nodes kept -/
def Frag.cutI (f : Frag) (from_ : Nat) (toI : Int) : Res Frag :=
  if from_ = 0 ∧ toI = f.size then .ok f
  else if toI ≤ from_ then .ok ⟨[], 0⟩
  else (fcutLoop f.content from_ toI.toNat).map Frag.ofList

/-- `cut(from_, to=None)`: `if to is None: to = self.size`, then `Frag.cutI` -/
def Frag.cut (f : Frag) (from_ : Nat) (to : Option Nat) : Res Frag :=
  Frag.cutI f from_ (match to with
    | some t => (t : Int)
    | none => f.size)

/-- `cut_by_index(from_, to=None)`: `Fragment(self.content[from_:to])` recomputes the size -/
def Frag.cutByIndex (f : Frag) (from_ : Int) (to : Option Int) : Frag :=
  if to = some from_ then Frag.empty                              -- if from_ == to
  else if from_ = 0 ∧ to = some (f.content.length : Int) then f
  else Frag.ofList (pySlice f.content from_ to)

/-! ### replace_child / add_to_start / add_to_end -/

/-- `replace_child(index, node)`.  `if current == node: return self` compares object identity; when it holds the
    other branch computes an equal value (`Frag.replaceChild_same`), so the model has only that branch.
    The index wraps around like every list index. -/
def Frag.replaceChild (f : Frag) (index : Int) (node : Node) : Res Frag :=
  match pyIdx f.content.length index with
  | none => .error .internal                                      -- current = self.content[index]
  | some k =>
    match f.content[k]? with
    | none => .error .internal
    | some current => .ok ⟨f.content.set k node, f.size + node.size - current.size⟩

def Frag.addToStart (f : Frag) (node : Node) : Frag := ⟨node :: f.content, f.size + node.size⟩

def Frag.addToEnd (f : Frag) (node : Node) : Frag := ⟨f.content ++ [node], f.size + node.size⟩

/-! ### eq -/

mutual
/-- `Node.eq` / `TextNode.eq`: `self == other or (same_markup and content.eq)`; for text
    `same_markup and self.text == getattr(other, "text", None)` -/
def Node.eqPy : Node → Node → Bool
  | .text s m, .text s' m' => (m == m') && s == s'
  | .leaf t a m, .leaf t' a' m' => t == t' && a == a' && m == m'
  | .elem t a m k, .elem t' a' m' k' =>
    (t == t' && a == a' && m == m') && (k.length == k'.length && eqZip k k')
  | _, _ => false
/-- `all(a.eq(b) for (a, b) in zip(...))` -/
def eqZip : List Node → List Node → Bool
  | a :: as, b :: bs => Node.eqPy a b && eqZip as bs
  | _, _ => true
end

/-- `Fragment.eq`: length test, then child by child; the stored sizes are not looked at -/
def Frag.eq (a b : Frag) : Bool := a.content.length == b.content.length && eqZip a.content b.content

/-! ### find_index -/

/-- the `while True` loop of `find_index`: `self.child(i)` raises `IndexError` when the list is exhausted (only
    possible with a stale size) -/
def Frag.findIndexLoop : List Node → (pos round : Int) → (i : Nat) → (cur : Int) → Res (Nat × Int)
  | [], _, _, _, _ => .error .internal
  | n :: ns, pos, round, i, cur =>
    let end_ := cur + n.size
    if end_ ≥ pos then
      if end_ = pos ∨ round > 0 then .ok (i + 1, end_) else .ok (i, cur)
    else Frag.findIndexLoop ns pos round (i + 1) end_

/-- `find_index(pos, round=-1)`: `(index, offset)`; reads the stored size for the end / range tests -/
def Frag.findIndex (f : Frag) (pos : Int) (round : Int := -1) : Res (Nat × Int) :=
  if pos = 0 then .ok (0, pos)
  else if pos = f.size then .ok (f.content.length, pos)
  else if pos > f.size ∨ pos < 0 then .error .valueError
  else Frag.findIndexLoop f.content pos round 0 0

end PM
