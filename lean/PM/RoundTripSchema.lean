/-
  PM/RoundTripSchema.lean — the export→import model (PM/RoundTrip.lean) for a *schema given as data*.

  * `TSpec` / `NodeT` / `MarkT` / `ToDomT`: the `toDOM` functions of a schema as data — an output-spec template whose tag
    may contain `f"…{node.attrs[k]}…"` parts and whose attribute values may be `node.attrs[k]` (a `None` value is skipped by
    `DOMSerializer.render_spec`, everything else goes through `str()` when the element is printed), plus finitely many
    attribute patterns with their own output (`OL_DOM if node.attrs.get("order") == 1 else […]`).  `ToDomT.toDom` turns the
    tables into the `ToDom` functions of PM/RoundTrip.lean.  harness/translate_schemas.py writes these tables for the
    bundled schemas (lean/Gen/RoundTrip.lean), the C19 tie sends the same tables to the driver and compares, node by node,
    the evaluated template with what the real `toDOM` returns.
  * `rtSchemaOk R D` — the part of `rtOk` that depends on the tables only: the selector table is parallel to the rules, and
    every node / mark type is, at every *attribute pattern the tables name* (the defaults; the static `attrs` of a parse
    rule), emitted in a form the first matching rule reads back as the same type with the same attributes (hole position,
    void / leaf form, `pre > code` wrapper included: `elemRule` / `leafRule` / `markRule`).  Decided once per schema by the
    kernel.
  * `rtDocOk R D doc` — the part that is about the document: valid, normalised, root attributes, whitespace-normal text
    (`textOk` / `lastOk`), marked nodes only among leaf siblings, …; a node or mark whose (type, attributes) is not one of
    the patterns of the schema part (an image, a link, a list with a start number) is checked against the tables on the
    spot ("its attributes are carried").
  `rtOk_of_parts` (Proofs/RoundTripParts.lean): `rtSchemaOk R D → rtDocOk R D doc → rtOk R D doc`.
-/
import PM.RoundTrip
namespace PM.RoundTrip
open PM PM.Dom PM.FromDom PM.DomWalk

/-! ## attribute values: JSON text → what `str()` prints -/

def hexVal (c : Char) : Option Nat :=
  if '0' ≤ c && c ≤ '9' then some (c.toNat - 48)
  else if 'a' ≤ c && c ≤ 'f' then some (c.toNat - 87)
  else if 'A' ≤ c && c ≤ 'F' then some (c.toNat - 55)
  else none

def escChar (e : Char) : Option Char :=
  if e == '"' then some '"' else if e == '\\' then some '\\' else if e == '/' then some '/'
  else if e == 'n' then some '\n' else if e == 'r' then some '\r' else if e == 't' then some '\t'
  else if e == 'b' then some (Char.ofNat 8) else if e == 'f' then some (Char.ofNat 12) else none

/-- the characters of a JSON string literal after the opening quote → the string it denotes (inverse of `jsonQuote`) -/
def unquoteBody : List Char → Option (List Char)
  | [] => none
  | c :: rest =>
    if c == '"' then (if rest.isEmpty then some [] else none)
    else if c == '\\' then
      match rest with
      | [] => none
      | e :: rest2 =>
        if e == 'u' then
          match rest2 with
          | h1 :: h2 :: h3 :: h4 :: rest3 =>
            match hexVal h1, hexVal h2, hexVal h3, hexVal h4, unquoteBody rest3 with
            | some a, some b, some c2, some d, some r => some (Char.ofNat (((a * 16 + b) * 16 + c2) * 16 + d) :: r)
            | _, _, _, _, _ => none
          | _ => none
        else
          match escChar e, unquoteBody rest2 with
          | some x, some r => some (x :: r)
          | _, _ => none
    else (unquoteBody rest).map (c :: ·)

def numChar (c : Char) : Bool := ('0' ≤ c && c ≤ '9') || c == '-' || c == '+' || c == '.' || c == 'e' || c == 'E'

/-- `v` = an attribute value as canonical JSON text.  `some none`: the value is `None`; `some (some s)`: `str(value) = s`
    (a string is itself, a number prints as JSON prints it, `True` / `False`); `none`: a list or dict (Python `repr`:
    outside the model) -/
def pyStr (v : String) : Option (Option (List Char)) :=
  if v == "null" then some none
  else if v == "true" then some (some "True".toList)
  else if v == "false" then some (some "False".toList)
  else match v.toList with
    | [] => none
    | c :: rest =>
      if c == '"' then (unquoteBody rest).map some
      else if (('0' ≤ c && c ≤ '9') || (c == '-' && (rest.head?.map (fun d => '0' ≤ d && d ≤ '9')).getD false)) &&
              rest.all numChar then some (some (c :: rest))
      else none

/-- `node.attrs[name]` -/
def attrOf (a : Attrs) (name : String) : Option String := (a.find? (·.1 == name)).map (·.2)

/-! ## `toDOM` as data -/

/-- a piece of a tag name: a constant, or `{node.attrs[name]}` inside an f-string -/
inductive TPart where
  | lit (s : List Char)
  | attr (name : String)
deriving Repr, Inhabited

/-- an attribute value of an output spec: a constant (`none`: `None`), or `node.attrs[name]` -/
inductive TVal where
  | lit (s : Option (List Char))
  | attr (name : String)
deriving Repr, Inhabited

inductive TSpec where
  | str (s : List Char)
  | el (name : List TPart) (attrs : List (List Char × TVal)) (kids : List TSpec)
  | hole
deriving Repr, Inhabited

def TPart.eval (a : Attrs) : TPart → Option (List Char)
  | .lit s => some s
  | .attr n => ((attrOf a n).bind pyStr).map (fun o => o.getD "None".toList)

def evalParts (a : Attrs) : List TPart → Option (List Char)
  | [] => some []
  | p :: ps =>
    match p.eval a, evalParts a ps with
    | some x, some r => some (x ++ r)
    | _, _ => none

def TVal.eval (a : Attrs) : TVal → Option (Option (List Char))
  | .lit s => some s
  | .attr n => (attrOf a n).bind pyStr

def evalAttrs (a : Attrs) : List (List Char × TVal) → Option (List (List Char × Option (List Char)))
  | [] => some []
  | (k, v) :: rest =>
    match v.eval a, evalAttrs a rest with
    | some x, some r => some ((k, x) :: r)
    | _, _ => none

mutual
def TSpec.eval (a : Attrs) : TSpec → Option Spec
  | .str s => some (.str s)
  | .hole => some .hole
  | .el name attrs kids =>
    match evalParts a name, evalAttrs a attrs, evalSpecs a kids with
    | some n, some ats, some ks => some (.el n ats ks)
    | _, _, _ => none
def evalSpecs (a : Attrs) : List TSpec → Option (List Spec)
  | [] => some []
  | s :: rest =>
    match s.eval a, evalSpecs a rest with
    | some x, some r => some (x :: r)
    | _, _ => none
end

/-- one `toDOM` function: the output at the attribute patterns listed (first hit), else the template; `generic = none`:
    the type has no `toDOM` -/
structure NodeT where
  cases : List (Attrs × TSpec) := []
  generic : Option TSpec := none
deriving Repr, Inhabited

/-- `none`: no `toDOM`; `some (.str [])` (nothing a rule reads back): a value outside the model -/
def NodeT.eval (T : NodeT) (a : Attrs) : Option Spec :=
  match T.generic with
  | none => none
  | some g =>
    some (((match T.cases.find? (fun (c : Attrs × TSpec) => c.1 == a) with
            | some c => c.2.eval a
            | none => g.eval a)).getD (.str []))

/-- a mark's `toDOM(mark, inline)`: a table per value of `inline` -/
structure MarkT where
  inl : NodeT := {}
  blk : NodeT := {}
deriving Repr, Inhabited

structure ToDomT where
  nodes : List NodeT          -- by `TypeId`
  marks : List MarkT          -- by `MarkTypeId`
  spanning : List Bool
deriving Repr, Inhabited

def ToDomT.toDom (T : ToDomT) : ToDom where
  node := fun t a => ((T.nodes.getD t {}).eval a).getD (.str [])
  mark := fun m inline => (if inline then (T.marks.getD m.ty {}).inl else (T.marks.getD m.ty {}).blk).eval m.attrs
  spanning := fun t => T.spanning.getD t true

/-! ## the schema part -/

def okAttrs (r : Res Attrs) : Option Attrs :=
  match r with
  | .ok a => some a
  | .error _ => none

/-- the attribute patterns of node type `t` the tables name: all defaults, and the static `attrs` of its parse rules -/
def typePatterns (R : RParser) (t : TypeId) : List Attrs :=
  (okAttrs (computeAttrs (R.P.S.nodeType t).attrs [])).toList ++
  R.P.tags.filterMap (fun r =>
    if r.node == some (some t) then r.attrs.bind (fun ra => okAttrs (computeAttrs (R.P.S.nodeType t).attrs ra)) else none)

/-- (type, attributes) of the nodes the schema part speaks about: every type but the text type and the top type (the
    root is never emitted) -/
def nodePatterns (R : RParser) : List (TypeId × Attrs) :=
  (List.range R.P.S.nodes.size).flatMap (fun t =>
    if (R.P.S.nodeType t).isText || t == R.P.S.top then [] else (typePatterns R t).map (fun a => (t, a)))

def markPatterns (R : RParser) : List Mark :=
  (List.range R.P.S.marks.size).flatMap (fun mt =>
    ((okAttrs (computeAttrs (R.P.S.markType mt).attrs [])).toList ++
     (R.P.tags.filterMap (fun r =>
       if r.mark == some (some mt) then r.attrs.bind (fun ra => okAttrs (computeAttrs (R.P.S.markType mt).attrs ra)) else none))).map
      (fun a => (⟨mt, a⟩ : Mark)))

/-- a node of type `t` with attributes `a` is emitted in a form the rules read back -/
def nodeFormOk (R : RParser) (D : ToDom) (p : TypeId × Attrs) : Bool :=
  if (R.P.S.nodeType p.1).isLeaf then (leafRule R D p.1 p.2).isSome else (elemRule R D p.1 p.2).isSome

/-- **the schema part of `rtOk`** -/
def rtSchemaOk (R : RParser) (D : ToDom) : Bool :=
  R.sel.length == R.P.tags.length &&
  (nodePatterns R).all (nodeFormOk R D) &&
  (markPatterns R).all (fun m => markRule R D m true)

/-- what the schema part established, as a table: (type, attributes, tag, `preserve_whitespace` of the rule) -/
def formTable (R : RParser) (D : ToDom) : List (TypeId × Attrs × Option (String × WS)) :=
  (nodePatterns R).map (fun p =>
    (p.1, p.2, if (R.P.S.nodeType p.1).isLeaf then (leafRule R D p.1 p.2).map (fun s => (s, WS.unset)) else elemRule R D p.1 p.2))

/-! ## the document part -/

/-- how nodes and marks are emitted and read back, as `nodeOk` needs it -/
structure Forms where
  elem : TypeId → Attrs → Option (String × WS)
  leaf : TypeId → Attrs → Option String
  mark : Mark → Bool → Bool

/-- every answer computed from the tables -/
def Forms.plain (R : RParser) (D : ToDom) : Forms := ⟨elemRule R D, leafRule R D, markRule R D⟩

/-- the answers for the patterns of the schema part taken on trust (that part says they exist); everything else —
    "are the attributes of this image carried" — computed from the tables -/
def Forms.trusting (R : RParser) (D : ToDom) : Forms where
  elem := fun t a =>
    if (nodePatterns R).contains (t, a) && !(R.P.S.nodeType t).isLeaf then some ((elemRule R D t a).getD ("", .unset))
    else elemRule R D t a
  leaf := fun t a =>
    if (nodePatterns R).contains (t, a) && (R.P.S.nodeType t).isLeaf then some ((leafRule R D t a).getD "")
    else leafRule R D t a
  mark := fun m inline => (inline && (markPatterns R).contains m) || markRule R D m inline

def prevTagG (F : Forms) : Node → String
  | .leaf t a _ => (F.leaf t a).getD ""
  | .elem t a _ _ => ((F.elem t a).map (·.1)).getD ""
  | .text .. => ""

mutual
/-- `nodeOk` over given `Forms` -/
def nodeOkG (R : RParser) (D : ToDom) (F : Forms) (opts : Opts) (pt : TypeId) : Node → Bool
  | .text _ ms => (R.P.S.nodeType pt).inlineContent && ms.all (fun m => F.mark m true)
  | .leaf t a ms =>
    (F.leaf t a).isSome && (R.P.S.nodeType t).isLeaf && !(R.P.S.nodeType t).isText &&
      (ms.isEmpty || (R.P.S.nodeType t).isInline) && ms.all (fun m => F.mark m (R.P.S.nodeType t).isInline)
  | .elem t a ms kids =>
    !(R.P.S.nodeType t).isLeaf && ms.isEmpty &&
    (match F.elem t a with
     | none => false
     | some (tag, pw) =>
       let o := wsOptionsFor (R.P.wsPre t) pw opts
       kidsOkG R D F o t none kids && lastOk o kids &&
       (!isWrapper D t a || (kids.all Node.isLeaf && kids.all (fun k => k.marks.isEmpty))) &&
       (!listTags.contains tag || kids.all (fun k => !listTags.contains (prevTagG F k))) &&
       (kids.all Node.isLeaf || kids.all (fun k => k.marks.isEmpty)) &&
       (!listTags.contains tag || kids.isEmpty || !kids.all Node.isLeaf))
def kidsOkG (R : RParser) (D : ToDom) (F : Forms) (opts : Opts) (pt : TypeId) (prev : Option (Node × String)) : List Node → Bool
  | [] => true
  | k :: ks =>
    (match k with
     | .text s _ => textOk opts prev s
     | _ => true) &&
    nodeOkG R D F opts pt k && kidsOkG R D F opts pt (some (k, prevTagG F k)) ks
end

/-- `rtOk` over given `Forms`, without the condition on the tables -/
def rtOkG (R : RParser) (D : ToDom) (F : Forms) (doc : Node) : Bool :=
  R.P.S.checkNode doc && doc.norm &&
  (match doc with
   | .elem t a ms kids =>
     t == R.P.S.top && ms.isEmpty && !(R.P.S.nodeType t).isLeaf && attrsEq (computeAttrs (R.P.S.nodeType t).attrs []) a &&
       kidsOkG R D F {} t none kids && lastOk {} kids && kids.all (fun k => k.marks.isEmpty)
   | _ => false)

/-- **the document part of `rtOk`**: the document is valid and normalised, its root has the default attributes, its text is
    whitespace-normal where it stands (`textOk`, `lastOk`), marks sit on inline leaves among leaf siblings only, content
    under a `pre > code` wrapper is unmarked leaves, list elements hold no list element and not only leaves, and every
    node / mark outside the attribute patterns of the schema part is emitted in a form the rules read back with its
    attributes -/
def rtDocOk (R : RParser) (D : ToDom) (doc : Node) : Bool := rtOkG R D (Forms.trusting R D) doc

end PM.RoundTrip
