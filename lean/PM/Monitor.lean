/-
  PM/Monitor.lean — decidable monitor predicates for the relational correspondence of the fitting
  heuristics (C11), the structure helpers (C12) and isolating boundaries (C18): they are evaluated by
  the driver on the steps the *real* code emits; the theorems in Props/ say what a true monitor
  implies once the step applies.
-/
import PM.Basic
import PM.Step
import PM.Resolve
namespace PM

/-- leaf and text-unit tokens: the *content* of a document, as opposed to its structure -/
def Tok.isContent : Tok → Bool
  | .leaf .. => true
  | .unit .. => true
  | _ => false

/-- content with marks and attributes erased: (leaf type | text unit) in order -/
inductive CShape where
  | leaf (ty : TypeId) | unit (cu : Nat)
deriving DecidableEq, Repr

def contentShapes : List Tok → List CShape
  | [] => []
  | .leaf t _ _ :: r => .leaf t :: contentShapes r
  | .unit u _ :: r => .unit u :: contentShapes r
  | _ :: r => contentShapes r

def structuralOnly (l : List Tok) : Bool := l.all (fun t => !t.isContent)

/-- the text units of a token list (marks erased) -/
def textUnits : List Tok → List Nat
  | [] => []
  | .unit u _ :: r => u :: textUnits r
  | _ :: r => textUnits r

/-- no text tokens (leaf fillers and structure only) -/
def noText (l : List Tok) : Bool := (textUnits l).isEmpty

/-- the tokens between two positions, whichever comes first -/
def between (l : List Tok) (a b : Nat) : List Tok := (l.drop (min a b)).take (max a b - min a b)

/-- `a` is a subsequence of `b` -/
def isSubseq {α} [DecidableEq α] : List α → List α → Bool
  | [], _ => true
  | _ :: _, [] => false
  | x :: xs, y :: ys => if x = y then isSubseq xs ys else isSubseq (x :: xs) ys

def sliceToks' (sl : Slice) : List Tok :=
  ((ftoks sl.content).drop sl.openStart).take (fsize sl.content - sl.openStart - sl.openEnd)

/-- **C11 monitor**: the emitted step `st` respects the request "replace `[f, t)` by `req`" on a
    document with tokens `d`: its range differs from the requested one only by structural tokens,
    and the text it inserts is an in-order subsequence of the requested text (leaf nodes it inserts
    are fillers or come from the slice; that is not pinned); for a replace-around step the kept gap
    lies after the requested range, separated from it and from the step's end only by structural
    tokens, and nothing inserted after the gap is text. -/
def respects (d : List Tok) (f t : Nat) (req : Slice) (st : Step) : Bool :=
  match st with
  | .replace F T sl _ =>
    decide (F ≤ T) && decide (T ≤ d.length) && decide (f ≤ t) &&
    structuralOnly (between d F f) && structuralOnly (between d t T) &&
    decide (min F f ≤ min t T) &&
    isSubseq (textUnits (sliceToks' sl)) (textUnits (sliceToks' req))
  | .replaceAround F T G1 G2 sl ins _ =>
    decide (F ≤ G1) && decide (G1 ≤ G2) && decide (G2 ≤ T) && decide (T ≤ d.length) && decide (f ≤ t) &&
    decide (t ≤ G1) &&
    structuralOnly (between d F f) && structuralOnly (between d t G1) && structuralOnly (between d G2 T) &&
    decide (min F f ≤ t) &&
    noText ((sliceToks' sl).drop ins) &&
    isSubseq (textUnits ((sliceToks' sl).take ins)) (textUnits (sliceToks' req))
  | _ => false

/-- **C12 monitor**: a structure-only step: the structure flag is set and the slice carries no content -/
def isStructural (st : Step) : Bool :=
  match st with
  | .replace _ _ sl s => s && structuralOnly (sliceToks' sl)
  | .replaceAround _ _ _ _ sl _ s => s && structuralOnly (sliceToks' sl)
  | _ => false

/-- position `p` of the document is not strictly inside a text node -/
def atBoundary (doc : Node) (p : Nat) : Bool :=
  match doc.resolve p with
  | some r => r.textOffset == 0
  | none => false

/-- **C12 monitor**: a structure-only step with well-ordered positions (the structure flag's guard
    `content_between` then makes sure the replaced ranges hold no content) -/
def isStructuralAt (_doc : Node) (st : Step) : Bool :=
  isStructural st &&
  match st with
  | .replace f t _ _ => decide (f ≤ t)
  | .replaceAround f t gf gt _ _ _ => decide (f ≤ gf) && decide (gf ≤ gt) && decide (gt ≤ t)
  | _ => false

/-- **C18 monitor**: the step's whole range lies strictly inside the node occupying `[a, b)` (its open
    token at `a`, its close token at `b - 1`) -/
def insideNode (a b : Nat) (st : Step) : Bool :=
  match st with
  | .replace F T _ _ => decide (a < F) && decide (F ≤ T) && decide (T < b)
  | .replaceAround F T _ _ _ _ _ => decide (a < F) && decide (F ≤ T) && decide (T < b)
  | .addMark F T _ => decide (a < F) && decide (T < b)
  | .removeMark F T _ => decide (a < F) && decide (T < b)
  | .addNodeMark p _ => decide (a < p) && decide (p + 1 < b)
  | .removeNodeMark p _ => decide (a < p) && decide (p + 1 < b)
  | .attr p _ _ => decide (a < p) && decide (p + 1 < b)
  | .docAttr .. => false

/-- **C18 monitor, boundary-inclusive**: the step's range starts after the open token of the node
    occupying `[a, b)` and ends at or before the position after its close token.  (A replace-family
    operation may re-close an isolating node and place content that does not fit inside *after* it;
    what must never happen is that tokens before its opening or after its closing are touched.) -/
def withinNode (a b : Nat) (st : Step) : Bool :=
  match st with
  | .replace F T _ _ => decide (a < F) && decide (F ≤ T) && decide (T ≤ b)
  | .replaceAround F T _ _ _ _ _ => decide (a < F) && decide (F ≤ T) && decide (T ≤ b)
  | .addMark F T _ => decide (a < F) && decide (T ≤ b)
  | .removeMark F T _ => decide (a < F) && decide (T ≤ b)
  | .addNodeMark p _ => decide (a < p) && decide (p + 1 ≤ b)
  | .removeNodeMark p _ => decide (a < p) && decide (p + 1 ≤ b)
  | .attr p _ _ => decide (a < p) && decide (p + 1 ≤ b)
  | .docAttr .. => false

/-- a pure insertion (empty replaced range) at a position outside the node occupying `[a, b)`:
    `replace_range_with` may move a block node to the nearest place where it fits (`insert_point`),
    which can lie outside an isolating node; such a step removes nothing anywhere -/
def pureInsertOutside (a b : Nat) (st : Step) : Bool :=
  match st with
  | .replace F T _ _ => decide (F = T) && (decide (F ≤ a) || decide (b ≤ F))
  | _ => false

/-- what the C18 correspondence run requires of every emitted step -/
def isoSafe (a b : Nat) (st : Step) : Bool := withinNode a b st || pureInsertOutside a b st

end PM
