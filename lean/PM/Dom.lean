/-
  PM/Dom.lean — model of the HTML serializer (model/to_dom.py): `DOMSerializer.serialize_fragment`
  (the active-mark stack that nests mark wrappers), `render_spec`, `Element.__str__` and
  `html.escape`.  The per-schema `toDOM` functions are schema data, not library code: the harness
  evaluates them and passes the resulting output specs along with the document.
-/
namespace PM.Dom

/-- `html.escape(s, quote=True)` -/
def escapeChar : Char → List Char
  | '&' => "&amp;".toList
  | '<' => "&lt;".toList
  | '>' => "&gt;".toList
  | '"' => "&quot;".toList
  | '\'' => "&#x27;".toList
  | c => [c]

def escape (s : List Char) : List Char := s.flatMap escapeChar

/-- the inverse reading of the five entities `escape` produces -/
def unescape : List Char → List Char
  | '&' :: 'a' :: 'm' :: 'p' :: ';' :: r => '&' :: unescape r
  | '&' :: 'l' :: 't' :: ';' :: r => '<' :: unescape r
  | '&' :: 'g' :: 't' :: ';' :: r => '>' :: unescape r
  | '&' :: 'q' :: 'u' :: 'o' :: 't' :: ';' :: r => '"' :: unescape r
  | '&' :: '#' :: 'x' :: '2' :: '7' :: ';' :: r => '\'' :: unescape r
  | c :: r => c :: unescape r
  | [] => []

/-- an output spec as `toDOM` returns it: a string, or `[tag, attrs?, children…]` with `0` the hole -/
inductive Spec where
  | str (s : List Char)
  | el (name : List Char) (attrs : List (List Char × Option (List Char))) (kids : List Spec)
  | hole
deriving Repr, Inhabited

/-- rendered DOM -/
inductive Html where
  | text (escaped : List Char)
  | el (name : List Char) (attrs : List (List Char × List Char)) (kids : List Html)
deriving Repr, Inhabited

def selfClosing : List (List Char) :=
  ["area", "base", "br", "col", "embed", "hr", "img", "input", "keygen", "link", "meta", "param",
   "source", "track", "wbr"].map String.toList

mutual
/-- `Element.__str__` / `DocumentFragment.__str__` -/
def Html.render : Html → List Char
  | .text s => s
  | .el name attrs kids =>
    let attrsStr := (attrs.map (fun (k, v) => k ++ "=\"".toList ++ escape v ++ "\"".toList))
    let joined := attrsStr.foldl (fun acc a => if acc.isEmpty then a else acc ++ " ".toList ++ a) []
    let openTag := if joined.isEmpty then name else name ++ " ".toList ++ joined
    if selfClosing.contains name then "<".toList ++ openTag ++ ">".toList
    else "<".toList ++ openTag ++ ">".toList ++ renderAll kids ++ "</".toList ++ name ++ ">".toList
def renderAll : List Html → List Char
  | [] => []
  | h :: hs => h.render ++ renderAll hs
end

/-- a document node annotated with its evaluated specs -/
inductive SNode where
  | mk (marks : List (Nat × Option Spec × Bool))   -- (mark identity, its toDOM spec if the mark renders, spanning ≠ False)
       (spec : Spec) (kids : List SNode)
deriving Inhabited

mutual
/-- `render_spec` with the content hole filled by already rendered children (`fill`);
    returns the DOM and whether the hole was found inside it -/
def renderSpec (fill : List Html) : Spec → Html × Bool
  | .str s => (.text (escape s), false)
  | .hole => (.text [], true)          -- only meaningful as a child of `el` (handled there)
  | .el name attrs kids =>
    let attrs' := attrs.filterMap (fun (k, v) => v.map (fun x => (k, x)))
    match kids with
    | [.hole] => (.el name attrs' fill, true)
    | _ =>
      let (ks, found) := renderSpecs fill kids
      (.el name attrs' ks, found)
def renderSpecs (fill : List Html) : List Spec → List Html × Bool
  | [] => ([], false)
  | s :: rest =>
    let (h, f1) := renderSpec fill s
    let (hs, f2) := renderSpecs fill rest
    (h :: hs, f1 || f2)
end

/-- one frame of the active-mark stack: the mark, its spec, and the children collected so far at
    the level *outside* it -/
structure Frame where
  mark : Nat
  spec : Spec
  outer : List Html

/-- close the innermost `n` active marks: each wraps the children collected inside it -/
def closeFrames : Nat → List Frame → List Html → List Frame × List Html
  | 0, st, cur => (st, cur)
  | _ + 1, [], cur => ([], cur)
  | n + 1, f :: st, cur =>
    let (h, found) := renderSpec cur f.spec
    -- a mark spec without a content hole receives the content as further children of its element
    let h' := if found then h else
      match h with
      | .el name attrs kids => .el name attrs (kids ++ cur)
      | t => t
    closeFrames n st (f.outer ++ [h'])

mutual
/-- `serialize_node_inner` -/
def serNode : SNode → Html
  | .mk _ spec kids => (renderSpec (serFrag kids [] []) spec).1
/-- `serialize_fragment`: `stack` = active marks (innermost first), `cur` = children collected at the
    current (innermost) level -/
def serFrag : List SNode → List Frame → List Html → List Html
  | [], stack, cur => (closeFrames stack.length stack cur).2
  | (.mk marks spec kids) :: rest, stack, cur =>
    let active := stack.reverse       -- outermost first, as in the code's `active` list
    -- how many active marks are kept: walk `active` and the node's marks in parallel
    let rec keepCount : List Frame → List (Nat × Option Spec × Bool) → Nat × List (Nat × Option Spec × Bool)
      | a :: as, (m, some sp, spanning) :: ms =>
        if m == a.mark && spanning then
          let (k, left) := keepCount as ms
          (k + 1, left)
        else (0, (m, some sp, spanning) :: ms)
      | as, (_, none, _) :: ms => keepCount as ms
      | _, ms => (0, ms)
    let (keep, toAdd) := keepCount active marks
    let (stack1, cur1) := closeFrames (stack.length - keep) stack cur
    -- open the remaining rendering marks of the node
    let (stack2, cur2) := toAdd.foldl (fun (acc : List Frame × List Html) (m : Nat × Option Spec × Bool) =>
      match m.2.1 with
      | some sp => ({ mark := m.1, spec := sp, outer := acc.2 } :: acc.1, [])
      | none => acc) (stack1, cur1)
    serFrag rest stack2 (cur2 ++ [serNode (.mk marks spec kids)])
end

/-- the serialised HTML text of a fragment -/
def serialize (kids : List SNode) : List Char := renderAll (serFrag kids [] [])

end PM.Dom
