/-
  PM/RangeOps.lean — the planning code of the replace family that sits *in front of* the Fitter
  (properties C11, C18):

  * `fits_trivially(from, to, slice)` and the part of `replace_step` before the Fitter is
    constructed                                      — prosemirror/transform/replace.py
  * `Transform.delete_range(from, to)`: the `(from, to)` pair it finally passes to
    `Transform.delete` (covered-depth loop, the `d` loop, fallback)
                                                     — prosemirror/transform/transform.py

  The order of the tests is the order of the code; `none` = the code raises (a position does not
  resolve, `content_match_at` on invalid content, `before`/`after` outside the path).
-/
import PM.Basic
import PM.Fragment
import PM.Content
import PM.Replace
import PM.Resolve
import PM.Step
import PM.Structure
namespace PM

/-! ### fits_trivially, replace_step before the Fitter -/

/-- `fits_trivially(from, to, slice)`:
    `if not slice.open_start and not slice.open_end and from.start() == to.start():
         return from.parent.can_replace(from.index(), to.index(), slice.content)
     return False`
    (`start()`/`index()` without argument are taken at the position's own depth). -/
def fitsTriviallyR (S : Schema) (rf rt : RPos) (sl : Slice) : Option Bool :=
  if sl.openStart == 0 && sl.openEnd == 0 && rf.start rf.depth == rt.start rt.depth then
    S.nodeCanReplace rf.parent (rf.index rf.depth) (rt.index rt.depth) sl.content
  else some false

/-- `fits_trivially(doc.resolve(f), doc.resolve(t), slice)` -/
def fitsTriviallyO (S : Schema) (doc : Node) (f t : Nat) (sl : Slice) : Option Bool :=
  match doc.resolve f, doc.resolve t with
  | some rf, some rt => fitsTriviallyR S rf rt sl
  | _, _ => none

/-- the answer of `replace_step(doc, from, to, slice)` as far as it is decided before a `Fitter` is
    built -/
inductive TrivialPlan where
  | noStep                 -- `from == to and not slice.size`: returns `None`
  | step (st : Step)       -- `fits_trivially`: `ReplaceStep(from, to, slice)`
  | needsFitter            -- falls through to `Fitter(from, to, slice).fit()`
deriving Repr, DecidableEq

/-- `replace_step` up to the construction of the Fitter -/
def replaceStepTrivial (S : Schema) (doc : Node) (f t : Nat) (sl : Slice) : Option TrivialPlan :=
  if f == t && sl.size == 0 then some .noStep
  else
    match fitsTriviallyO S doc f t sl with
    | none => none
    | some true => some (.step (.replace f t sl false))
    | some false => some .needsFitter

/-! ### delete_range -/

/-- the loop `for i in range(len(covered))` over the remaining covered depths.
    `some (some p)` = `return self.delete(p.1, p.2)`, `some none` = the loop falls through,
    `none` = raises. -/
def deleteRangeCovered (S : Schema) (rf rt : RPos) : List Nat → Option (Option (Nat × Nat))
  | [] => some none
  | depth :: rest =>
    let last := rest.isEmpty
    -- `(last and depth == 0) or from.node(depth).type.content_match.valid_end`
    if (last && depth == 0) || (S.dfa (S.tyOf (rf.node depth))).validEnd 0 then
      some (some (rf.start depth, rt.end_ depth))
    else
      -- `depth > 0 and (last or from.node(depth-1).can_replace(from.index(depth-1), to.index_after(depth-1)))`
      let second : Option Bool :=
        if depth == 0 then some false
        else if last then some true
        else S.nodeCanReplace (rf.node (depth - 1)) (rf.index (depth - 1)) (rt.indexAfter (depth - 1)) []
      match second with
      | none => none
      | some true =>
        match rf.before depth, rt.after depth with
        | some b, some a => some (some (b, a))
        | _, _ => none
      | some false => deleteRangeCovered S rf rt rest

/-- the loop `d = 1; while d <= from.depth and d <= to.depth`; the argument counts the remaining
    iterations (`d = bound + 1 - n`).  `some (some p)` = `return self.delete(p.1, p.2)`. -/
def deleteRangeOuter (rf rt : RPos) (f t : Nat) (bound : Nat) : Nat → Option (Option (Nat × Nat))
  | 0 => some none
  | n + 1 =>
    let d := bound - n
    -- `from - from.start(d) == from.depth - d and to > from.end(d) and to.end(d) - to != to.depth - d`
    if f == rf.start d + (rf.depth - d) && decide (rf.end_ d < t) && rt.end_ d != t + (rt.depth - d) then
      match rf.before d with
      | some b => some (some (b, t))
      | none => none
    else deleteRangeOuter rf rt f t bound n

/-- `delete_range` on resolved positions: the pair handed to `self.delete` -/
def deleteRangeTargetR (S : Schema) (rf rt : RPos) (f t : Nat) : Option (Nat × Nat) :=
  match deleteRangeCovered S rf rt (coveredDepthsR S rf rt) with
  | none => none
  | some (some p) => some p
  | some none =>
    let bound := min rf.depth rt.depth
    match deleteRangeOuter rf rt f t bound bound with
    | none => none
    | some (some p) => some p
    | some none => some (f, t)

/-- `Transform.delete_range(f, t)`: the `(from, to)` it passes to `Transform.delete`;
    `none` = raises before getting there -/
def deleteRangeTarget (S : Schema) (doc : Node) (f t : Nat) : Option (Nat × Nat) :=
  match doc.resolve f, doc.resolve t with
  | some rf, some rt => deleteRangeTargetR S rf rt f t
  | _, _ => none

end PM
