/-
  PM/MapTable.lean — the executable reading of "no index is registered twice" for the `mirror` table of
  a mapping (map.py: `Mapping.mirror`, a flat list of pairs filled by `set_mirror`): an even number of
  entries, pairwise distinct, every one of them the index of a map.  `Proofs/MirrorTable.lean` shows
  that this is the family on which `get_mirror` is a symmetric partial involution and that the
  builders of map.py never leave it; the driver evaluates it on concrete mappings (C08 tie).

  Core Lean only.
-/
import PM.Map
namespace PM

def Mapping.functionalB (m : Mapping) : Bool :=
  m.mirror.length % 2 == 0 && decide m.mirror.Nodup && m.mirror.all (fun x => decide (x < m.maps.length))

end PM
