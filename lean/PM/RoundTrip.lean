/-
  PM/RoundTrip.lean — the link between the serializer model (PM/Dom.lean) and the DOM-walk model
  (PM/DomWalk.lean): "export then import".

  * `ToDom`: the `toDOM` functions of a schema as data the model can apply (a function of the node's type and
    attributes / of the mark), `annotate` / `serializeDoc`: a document → the `SNode`s of PM/Dom.lean → the
    rendered DOM (`Html`) of `DOMSerializer.serialize_fragment(doc.content)`.
  * `Sel` / `RParser`: the parse rules in the restricted form the bundled schemas use — a tag selector
    `name[attr]…` and a `get_attrs` that copies DOM attributes (`{"href": dom.get("href")}`) or is absent
    (static `attrs`).  For these rules the oracle of PM/DomWalk.lean (which rules' selectors match an element, what
    `get_attrs` answers) is a function of the emitted element: `toDom` / `toDomList` fill it in.
    What lxml does between the two (printing `Html`, parsing the string back) is: adjacent text nodes are one
    text node, an empty text is no node, entities are decoded, tag and attribute names are lower case, void elements
    have no children.
  * `rtOk`: the decidable hypothesis of the round-trip theorem on a document — per node, the element its `toDOM`
    emits is matched *first* by a rule without context that maps back to the node's type (mark's type) with the same
    attributes (so it subsumes "attributes the rules carry"), and the text is *whitespace-normal* for the whitespace
    mode in force at that place (`textOk`, `lastOk`): exactly what `add_text_node` / `NodeContext.finish` leave
    unchanged.
-/
import PM.Dom
import PM.DomWalk
namespace PM.RoundTrip
open PM PM.Dom PM.FromDom PM.DomWalk

/-! ## strings: UTF-16 units ↔ characters, JSON string literals -/

def charUnits (c : Char) : List Nat :=
  if c.toNat < 0x10000 then [c.toNat]
  else [0xD800 + (c.toNat - 0x10000) / 0x400, 0xDC00 + (c.toNat - 0x10000) % 0x400]

/-- `str` → UTF-16 units -/
def unitsOfChars (s : List Char) : List Nat := s.flatMap charUnits

/-- UTF-16 units → characters (surrogate pairs joined; a lone surrogate has no `Char`: U+FFFD, such text is
    excluded by `unitsOk`) -/
def charsOfUnits : List Nat → List Char
  | [] => []
  | [u] => [Char.ofNat u]
  | u :: v :: rest =>
    if 0xD800 ≤ u && u < 0xDC00 && 0xDC00 ≤ v && v < 0xE000 then
      Char.ofNat (0x10000 + (u - 0xD800) * 0x400 + (v - 0xDC00)) :: charsOfUnits rest
    else Char.ofNat u :: charsOfUnits (v :: rest)

/-- the text is a Python `str` without lone surrogates: decoding and encoding again gives it back -/
def unitsOk (s : List Nat) : Bool := unitsOfChars (charsOfUnits s) == s

def hexDigit (n : Nat) : Char := if n < 10 then Char.ofNat (48 + n) else Char.ofNat (87 + n)

/-- `json.dumps(s, ensure_ascii=False)` of a string -/
def jsonChar (c : Char) : List Char :=
  if c == '"' then ['\\', '"']
  else if c == '\\' then ['\\', '\\']
  else if c == '\n' then ['\\', 'n']
  else if c == '\r' then ['\\', 'r']
  else if c == '\t' then ['\\', 't']
  else if c.toNat == 8 then ['\\', 'b']
  else if c.toNat == 12 then ['\\', 'f']
  else if c.toNat < 0x20 then ['\\', 'u', '0', '0', hexDigit (c.toNat / 16), hexDigit (c.toNat % 16)]
  else [c]

def jsonQuote (s : List Char) : String := String.ofList ('"' :: s.flatMap jsonChar ++ ['"'])

/-! ## export: document → `SNode` → `Html` -/

/-- the `toDOM` functions of a schema -/
structure ToDom where
  /-- `DOMSerializer.nodes[type.name](node)` for a non-text node: a function of type and attributes -/
  node : TypeId → Attrs → Spec
  /-- `DOMSerializer.marks[mark.type.name](mark, inline)`; `none`: the mark type has no `toDOM` -/
  mark : Mark → Bool → Option Spec
  /-- `mark.type.spec.get("spanning") is not False` -/
  spanning : MarkTypeId → Bool

mutual
/-- all marks of a tree, in document order (with repetitions) -/
def marksOf : Node → List Mark
  | .text _ m => m
  | .leaf _ _ m => m
  | .elem _ _ m kids => m ++ marksOfList kids
def marksOfList : List Node → List Mark
  | [] => []
  | n :: ns => marksOf n ++ marksOfList ns
end

/-- the identity PM/Dom.lean compares marks by (`Mark.eq`): the position of the mark's first occurrence -/
def markId (univ : List Mark) (m : Mark) : Nat := univ.idxOf m

def annMarks (D : ToDom) (univ : List Mark) (inline : Bool) (ms : Marks) : List (Nat × Option Spec × Bool) :=
  ms.map (fun m => (markId univ m, D.mark m inline, D.spanning m.ty))

mutual
/-- a node with its evaluated output specs -/
def annotate (S : Schema) (D : ToDom) (univ : List Mark) : Node → SNode
  | .text s m => .mk (annMarks D univ true m) (.str (charsOfUnits s)) []
  | .leaf t a m => .mk (annMarks D univ (S.nodeType t).isInline m) (D.node t a) []
  | .elem t a m kids => .mk (annMarks D univ (S.nodeType t).isInline m) (D.node t a) (annotateList S D univ kids)
def annotateList (S : Schema) (D : ToDom) (univ : List Mark) : List Node → List SNode
  | [] => []
  | n :: ns => annotate S D univ n :: annotateList S D univ ns
end

/-- `DOMSerializer.serialize_fragment(doc.content)` -/
def serializeDoc (S : Schema) (D : ToDom) (doc : Node) : List Html :=
  serFrag (annotateList S D (marksOf doc) doc.kids) [] []

/-! ## import: the emitted DOM as the walk sees it, oracle filled in -/

/-- a tag rule's selector and `get_attrs` in restricted form: `tag[need…]`, `get_attrs = lambda d: {k: d.get(a)}` -/
structure Sel where
  tag : String
  need : List String := []
  copy : Option (List (String × String)) := none
deriving Repr, Inhabited

structure RParser where
  P : Parser
  sel : List Sel          -- parallel to `P.tags`

def lowerName (s : List Char) : String := String.ofList (s.map Char.toLower)

def domAttrs (attrs : List (List Char × List Char)) : List (String × List Char) :=
  attrs.map (fun (k, v) => (lowerName k, v))

def selMatches (s : Sel) (tag : String) (attrs : List (String × List Char)) : Bool :=
  s.tag == tag && s.need.all (fun a => attrs.any (fun kv => kv.1 == a))

/-- `dom.get(a)` as a JSON value -/
def domGet (attrs : List (String × List Char)) (a : String) : String :=
  match attrs.find? (fun kv => kv.1 == a) with
  | some kv => jsonQuote kv.2
  | none => "null"

def selAnswer (s : Sel) (attrs : List (String × List Char)) : GA :=
  match s.copy with
  | none => .absent
  | some l => .attrs (some (l.map (fun (k, a) => (k, domGet attrs a))))

/-- the candidates of an element: the rules whose selector matches, ascending, with their `get_attrs` answers -/
def candsFrom (tag : String) (attrs : List (String × List Char)) : List Sel → Nat → List (CandInfo × List DNode)
  | [], _ => []
  | s :: rest, i =>
    if selMatches s tag attrs then
      ({ idx := i, ga := selAnswer s attrs, kind := .children }, []) :: candsFrom tag attrs rest (i + 1)
    else candsFrom tag attrs rest (i + 1)

/-- put a text in front of a child list: adjacent texts are one node, an empty text is none -/
def consText (u : List Nat) : List DNode → List DNode
  | .text (some v) :: rest => .text (some (u ++ v)) :: rest
  | rest => if u.isEmpty then rest else .text (some u) :: rest

mutual
def toDom (sel : List Sel) : Html → DNode
  | .text esc => .text (some (unitsOfChars (unescape esc)))
  | .el name attrs kids =>
    .elem (lowerName name) [] (candsFrom (lowerName name) (domAttrs attrs) sel 0)
      (if selfClosing.contains name then [] else toDomList sel kids)
/-- the children of the parsed fragment for a list of emitted nodes -/
def toDomList (sel : List Sel) : List Html → List DNode
  | [] => []
  | .text esc :: rest => consText (unitsOfChars (unescape esc)) (toDomList sel rest)
  | .el name attrs kids :: rest => toDom sel (.el name attrs kids) :: toDomList sel rest
end

mutual
/-- no emitted element carries a `style` attribute (the walk would read it through a regex outside the model) -/
def noStyle : Html → Bool
  | .text _ => true
  | .el _ attrs kids => !(domAttrs attrs).any (fun kv => kv.1 == "style") && noStyleList kids
def noStyleList : List Html → Bool
  | [] => true
  | h :: hs => noStyle h && noStyleList hs
end

/-- `from_html(schema, str(serializer.serialize_fragment(doc.content)))` in the model -/
def roundTrip (R : RParser) (D : ToDom) (doc : Node) : Res Node :=
  parse R.P "document-fragment" (toDomList R.sel (serializeDoc R.P.S D doc))

/-! ## the hypothesis of the round-trip theorem -/

/-- the rule `match_tag` picks for an emitted element whatever the context: the first candidate, provided it has no
    `context` and its `get_attrs` does not decline; with the `rule.attrs` it leaves -/
def firstRule (R : RParser) (tag : String) (attrs : List (String × List Char)) : Option (TagRule × Option Attrs) :=
  match (candsFrom tag attrs R.sel 0).head? with
  | none => none
  | some (c, _) =>
    match R.P.tags[c.idx]? with
    | none => none
    | some r =>
      if !r.context.isEmpty then none
      else match c.ga.resolve r.attrs with
        | .use a => some (r, a)
        | _ => none

/-- a rule that parses the element's content as the content of its node / mark and nothing else -/
def straight (r : TagRule) : Bool := !r.ignore && !r.skip && !r.closeParent && r.consuming

def attrsEq (r : Res Attrs) (a : Attrs) : Bool :=
  match r with
  | .ok b => b == a
  | .error _ => false

def renderedAttrs (sattrs : List (List Char × Option (List Char))) : List (String × List Char) :=
  domAttrs (sattrs.filterMap (fun (k, v) => v.map (fun x => (k, x))))

def tagUsable (tag : String) (attrs : List (String × List Char)) : Bool :=
  !ignoreTags.contains tag && !attrs.any (fun kv => kv.1 == "style")

/-- the rule that reads the element `<name sattrs>` back as a node of type `t` with attributes `a`;
    answers the rule's `preserve_whitespace` -/
def nodeRule (R : RParser) (t : TypeId) (a : Attrs) (name : List Char) (sattrs : List (List Char × Option (List Char))) :
    Option WS :=
  let tag := lowerName name
  let attrs := renderedAttrs sattrs
  if !tagUsable tag attrs then none
  else match firstRule R tag attrs with
    | some (r, ra) =>
      if straight r && r.node == some (some t) && attrsEq (computeAttrs (R.P.S.nodeType t).attrs (ra.getD [])) a
      then some r.preserveWs else none
    | none => none

/-- an inner element of a node's output (`["pre", ["code", 0]]`) the walk passes through without effect on a node
    of type `t`: no rule and an inline, non-ignored, non-`br` tag — or a mark rule whose mark `t` does not allow -/
def transparent (R : RParser) (t : TypeId) (name : List Char) (sattrs : List (List Char × Option (List Char))) : Bool :=
  let tag := lowerName name
  let attrs := renderedAttrs sattrs
  tagUsable tag attrs && !selfClosing.contains name && tag != "br" && !listTags.contains tag &&
  (match (candsFrom tag attrs R.sel 0).head? with
   | none => !blockTags.contains tag
   | some _ =>
     match firstRule R tag attrs with
     | some (r, ra) =>
       straight r && r.node.isNone && r.preserveWs == .unset &&
       (match r.mark with
        | some (some mt) => !(R.P.S.nodeType t).allowsMarkType mt &&
            (match createMark R.P.S mt ra 0 with
             | .ok _ => true
             | .error _ => false)
        | _ => false)
     | none => false)

/-- how a non-leaf node is emitted and read back: `[tag, attrs, 0]` or `[tag, attrs, [inner, attrs, 0]]`;
    answers the tag and the rule's `preserve_whitespace` -/
def elemRule (R : RParser) (D : ToDom) (t : TypeId) (a : Attrs) : Option (String × WS) :=
  match D.node t a with
  | .el name sattrs [.hole] =>
    if selfClosing.contains name then none else (nodeRule R t a name sattrs).map (fun pw => (lowerName name, pw))
  | .el name sattrs [.el name2 sattrs2 [.hole]] =>
    if transparent R t name2 sattrs2 && !listTags.contains (lowerName name) && !selfClosing.contains name then
      (nodeRule R t a name sattrs).map (fun pw => (lowerName name, pw))
    else none
  | _ => none

/-- the node is emitted with an inner element around its content (`["pre", ["code", 0]]`) -/
def isWrapper (D : ToDom) (t : TypeId) (a : Attrs) : Bool :=
  match D.node t a with
  | .el _ _ [.el _ _ [.hole]] => true
  | _ => false

/-- a leaf node is emitted as an element without content hole and read back by a rule for its type -/
def leafRule (R : RParser) (D : ToDom) (t : TypeId) (a : Attrs) : Option String :=
  match D.node t a with
  | .el name sattrs [] => (nodeRule R t a name sattrs).map (fun _ => lowerName name)
  | _ => none

/-- a mark is emitted as `[tag, attrs, 0]` and read back by a mark rule giving an equal mark -/
def markRule (R : RParser) (D : ToDom) (m : Mark) (inline : Bool) : Bool :=
  D.spanning m.ty &&
  (match D.mark m inline with
   | some (.el name sattrs [.hole]) =>
     let tag := lowerName name
     let attrs := renderedAttrs sattrs
     tagUsable tag attrs && tag != "br" && !listTags.contains tag && !selfClosing.contains name &&
     (match firstRule R tag attrs with
      | some (r, ra) =>
        straight r && r.node.isNone && r.mark == some (some m.ty) && r.preserveWs == .unset &&
        attrsEq (computeAttrs (R.P.S.markType m.ty).attrs (ra.getD [])) m.attrs
      | none => false)
   | _ => false)

def startsWithSpace (s : List Nat) : Bool := (s.head?.map isHtmlSpace).getD false

/-- a text the whitespace handling of `add_text_node` leaves unchanged, in whitespace mode `opts`, after the sibling
    `prev` (`prevTag` = the tag a leaf sibling is emitted with):
    * `preserve_whitespace: "full"` — no `\r`;
    * `preserve_whitespace: True` — no `\r`, `\n`;
    * otherwise — every white space is a single U+0020, and a leading one follows a text that does not end in white space
      or a leaf that is not a `<br>`. -/
def textOk (opts : Opts) (prev : Option (Node × String)) (s : List Nat) : Bool :=
  unitsOk s && !s.isEmpty &&
  (if opts.preserveWs then
     (if opts.full then crlfToLf s == s else nlToSpace s == s)
   else
     collapseWs s == s &&
     (!startsWithSpace s ||
       (match prev with
        | none => false
        | some (.text p _, _) => !endsWithSpace p
        | some (_, tag) => tag != "br")))

/-- the strip at `NodeContext.finish` does nothing: the last child is not a text ending in white space -/
def lastOk (opts : Opts) (kids : List Node) : Bool :=
  opts.preserveWs ||
    (match kids.getLast? with
     | some (.text s _) => !endsWithSpace s
     | _ => true)

/-- the tag a child is emitted with when it is not a text (for `textOk`) -/
def prevTag (R : RParser) (D : ToDom) : Node → String
  | .leaf t a _ => (leafRule R D t a).getD ""
  | .elem t a _ _ => ((elemRule R D t a).map (·.1)).getD ""
  | .text .. => ""

mutual
/-- `opts`: the whitespace mode inside the parent, `pt`: the parent's type -/
def nodeOk (R : RParser) (D : ToDom) (opts : Opts) (pt : TypeId) : Node → Bool
  | .text _ ms => (R.P.S.nodeType pt).inlineContent && ms.all (fun m => markRule R D m true)
  | .leaf t a ms =>
    (leafRule R D t a).isSome && (R.P.S.nodeType t).isLeaf && !(R.P.S.nodeType t).isText &&
      (ms.isEmpty || (R.P.S.nodeType t).isInline) && ms.all (fun m => markRule R D m (R.P.S.nodeType t).isInline)
  | .elem t a ms kids =>
    !(R.P.S.nodeType t).isLeaf && ms.isEmpty &&
    (match elemRule R D t a with
     | none => false
     | some (tag, pw) =>
       let o := wsOptionsFor (R.P.wsPre t) pw opts
       kidsOk R D o t none kids && lastOk o kids &&
       (!isWrapper D t a || (kids.all Node.isLeaf && kids.all (fun k => k.marks.isEmpty))) &&
       (!listTags.contains tag || kids.all (fun k => !listTags.contains (prevTag R D k))) &&
       -- marked children only where all children are leaves (the children of a textblock)
       (kids.all Node.isLeaf || kids.all (fun k => k.marks.isEmpty)) &&
       -- a list element does not consist of leaves only
       (!listTags.contains tag || kids.isEmpty || !kids.all Node.isLeaf))
def kidsOk (R : RParser) (D : ToDom) (opts : Opts) (pt : TypeId) (prev : Option (Node × String)) : List Node → Bool
  | [] => true
  | k :: ks =>
    (match k with
     | .text s _ => textOk opts prev s
     | _ => true) &&
    nodeOk R D opts pt k && kidsOk R D opts pt (some (k, prevTag R D k)) ks
end

/-- the decidable hypothesis of the round trip on a document `doc`: it is a valid, normalised document of the
    schema whose root has the attributes `parse` gives it (the defaults), and every node below is emitted and read
    back faithfully (`nodeOk`) -/
def rtOk (R : RParser) (D : ToDom) (doc : Node) : Bool :=
  R.sel.length == R.P.tags.length &&
  R.P.S.checkNode doc && doc.norm &&
  (match doc with
   | .elem t a ms kids =>
     t == R.P.S.top && ms.isEmpty && !(R.P.S.nodeType t).isLeaf && attrsEq (computeAttrs (R.P.S.nodeType t).attrs []) a &&
       kidsOk R D {} t none kids && lastOk {} kids && kids.all (fun k => k.marks.isEmpty)
   | _ => false)

mutual
/-- no node of the tree carries a mark -/
def noMarks : Node → Bool
  | .text _ m => m.isEmpty
  | .leaf _ _ m => m.isEmpty
  | .elem _ _ m kids => m.isEmpty && noMarksList kids
def noMarksList : List Node → Bool
  | [] => true
  | n :: ns => noMarks n && noMarksList ns
end

end PM.RoundTrip
