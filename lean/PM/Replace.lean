/-
  PM/Replace.lean — model of prosemirror/model/replace.py (Slice, replace, replace_outer,
  replace_two_way, replace_three_way, add_range/add_node, close, check_join, insert_into,
  remove_range, Slice.max_open) and of Node.slice (node.py).

  No `ResolvedPos` path arrays: every function is structural recursion on a child list with
  offsets relative to that list.  "f is *deep* in L" means offset f lies strictly inside a
  non-text, non-leaf child of L (the resolved position descends).  Functions that build a child
  list return the *pieces* in order; the caller applies `fromArray` (the code builds the list by
  repeated `add_node`, i.e. `from_array` of the pieces).
-/
import PM.Basic
import PM.Fragment
import PM.Content
namespace PM

structure Slice where
  content   : List Node
  openStart : Nat
  openEnd   : Nat
deriving Repr, Inhabited, DecidableEq

def Slice.empty : Slice := ⟨[], 0, 0⟩
/-- `Slice.size` (an `Int`: malformed slices can make it negative) -/
def Slice.size (s : Slice) : Int := (fsize s.content : Int) - s.openStart - s.openEnd

/-! ### Depth of a resolved position below a child list -/

/-- number of levels `ResolvedPos.resolve` descends below this child list for offset `pos` -/
def depthAt : List Node → Nat → Nat
  | [], _ => 0
  | n :: ns, pos =>
    if pos = 0 then 0
    else if n.size ≤ pos then depthAt ns (pos - n.size)
    else match n with
      | .elem _ _ _ kids => 1 + depthAt kids (pos - 1)
      | _ => 0

/-- offsets `0 … fsize kids` are the resolvable ones -/
def inRange (kids : List Node) (pos : Nat) : Bool := pos ≤ fsize kids

/-! ### Right-hand split: what remains at / after offset `t` in a child list -/

inductive RSplit where
  /-- `t` at a child boundary or inside a text child (the text suffix is the first element) -/
  | flat (rest : List Node)
  /-- `t` strictly inside element child `child`, at inner offset `inner`; `rest` follows it -/
  | deep (child : Node) (inner : Nat) (rest : List Node)
deriving Repr, Inhabited

/-- `none`: offset outside the list, or a cut inside a surrogate pair (value_error upstream) -/
def splitRight : List Node → Nat → Option RSplit
  | [], 0 => some (.flat [])
  | [], _ + 1 => none
  | n :: ns, t =>
    if t = 0 then some (.flat (n :: ns))
    else if n.size ≤ t then splitRight ns (t - n.size)
    else match n with
      | .text s m => if splitOk s t then some (.flat (.text (s.drop t) m :: ns)) else none
      | .leaf .. => none
      | .elem .. => some (.deep n (t - 1) ns)

/-! ### close / check_join -/

/-- `close(node, content)` where `node` is an element with markup `(t, a, m)` -/
def Schema.close (S : Schema) (t : TypeId) (a : Attrs) (m : Marks) (content : List Node) : Res Node :=
  if S.validContent t content then .ok (.elem t a m content) else .error .failed

/-- `check_join(main, sub)`: `sub.type.compatible_content(main.type)` -/
def Schema.checkJoin (S : Schema) (main sub : TypeId) : Res Unit :=
  if S.compatibleContent sub main then .ok () else .error .failed

def Node.ty! : Node → TypeId
  | .elem t _ _ _ => t
  | .leaf t _ _ => t
  | .text .. => 0

/-! ### replace_two_way -/

/-- pieces of `replace_two_way`: `L` up to offset `f`, then `R` from offset `t`, joining the
    nodes both positions are deep in, level by level. -/
def twoWay (S : Schema) : List Node → Nat → List Node → Nat → Res (List Node)
  | [], f, R, t =>
    if f = 0 then
      match splitRight R t with
      | some (.flat rest) => .ok rest
      | some (.deep ..) => .error .internal
      | none => .error .valueError
    else .error .valueError
  | n :: ns, f, R, t =>
    if f = 0 then
      match splitRight R t with
      | some (.flat rest) => .ok rest
      | some (.deep ..) => .error .internal
      | none => .error .valueError
    else if n.size ≤ f then
      match twoWay S ns (f - n.size) R t with
      | .ok r => .ok (n :: r)
      | .error e => .error e
    else match n with
      | .text s m =>
        if !splitOk s f then .error .valueError else
        match splitRight R t with
        | some (.flat rest) => .ok (.text (s.take f) m :: rest)
        | some (.deep ..) => .error .internal
        | none => .error .valueError
      | .leaf .. => .error .internal
      | .elem ty a m kids =>
        match splitRight R t with
        | some (.deep (.elem ty' _ _ kids') inner rest) =>
          if S.compatibleContent ty' ty then
            match twoWay S kids (f - 1) kids' inner with
            | .ok innerRes =>
              match S.close ty a m (fromArray innerRes) with
              | .ok c => .ok (c :: rest)
              | .error e => .error e
            | .error e => .error e
          else .error .failed
        | some _ => .error .internal
        | none => .error .valueError

/-! ### replace_three_way -/

/-- the children of `M` strictly between its open sides -/
def middle (M : List Node) (openL openR : Bool) : List Node :=
  let m1 := if openL then M.drop 1 else M
  if openR then m1.dropLast else m1

/-- what the right side contributes at this level, after the possible join node -/
def RSplit.rest : RSplit → List Node
  | .flat r => r
  | .deep _ _ r => r

/-- the join of the slice's right spine with the `to` side: `close(cE, two_way(end, to))` -/
def rightJoin (S : Schema) (M : List Node) (b : Nat) (rs : RSplit) : Res (List Node) :=
  match rs with
  | .flat _ => if b = 0 then .ok [] else .error .internal
  | .deep cR innerT _ =>
    if b = 0 then .error .internal else
    match M.getLast?, cR with
    | some (.elem tyE aE mE kidsE), .elem tyR _ _ kidsR =>
      if S.compatibleContent tyR tyE then
        match twoWay S kidsE (fsize kidsE - (b - 1)) kidsR innerT with
        | .ok r =>
          match S.close tyE aE mE (fromArray r) with
          | .ok c => .ok [c]
          | .error e => .error e
        | .error e => .error e
      else .error .failed
    | _, _ => .error .internal

/-- the tail of a level when `f` is *not* deep in `L`: slice middle, right join, rest of `R` -/
def flatTail (S : Schema) (M : List Node) (a b : Nat) (R : List Node) (t : Nat) : Res (List Node) :=
  if a ≠ 0 then .error .internal else
  match splitRight R t with
  | none => .error .valueError
  | some rs =>
    match rightJoin S M b rs with
    | .ok rj => .ok (middle M false (b != 0) ++ rj ++ rs.rest)
    | .error e => .error e

/-- pieces of `replace_three_way` at one level.
    `extra` = number of levels still above the slice's own top level (there the "slice" is the
    wrapper copy of `from`'s ancestor, so the join partner on the left is the node itself);
    `a`, `b` = remaining open depths of the slice at this level; `M` = slice children at this level. -/
def threeWay (S : Schema) : List Node → Nat → Nat → List Node → Nat → Nat → List Node → Nat → Res (List Node)
  | [], f, extra, M, a, b, R, t =>
    if f = 0 then (if extra = 0 then flatTail S M a b R t else .error .internal) else .error .valueError
  | n :: ns, f, extra, M, a, b, R, t =>
    if f = 0 then (if extra = 0 then flatTail S M a b R t else .error .internal)
    else if n.size ≤ f then
      match threeWay S ns (f - n.size) extra M a b R t with
      | .ok r => .ok (n :: r)
      | .error e => .error e
    else match n with
      | .text s m =>
        if !splitOk s f then .error .valueError
        else if extra ≠ 0 then .error .internal
        else match flatTail S M a b R t with
          | .ok r => .ok (.text (s.take f) m :: r)
          | .error e => .error e
      | .leaf .. => .error .internal
      | .elem tyL aL mL kidsL =>
        match splitRight R t with
        | none => .error .valueError
        | some rs =>
          if extra ≠ 0 then
            -- above the slice: both sides must be deep; merge `to`'s ancestor into `from`'s
            match rs with
            | .deep (.elem tyR _ _ kidsR) innerT rest =>
              if S.compatibleContent tyR tyL then
                match threeWay S kidsL (f - 1) (extra - 1) M a b kidsR innerT with
                | .ok inner =>
                  match S.close tyL aL mL (fromArray inner) with
                  | .ok c => .ok (c :: rest)
                  | .error e => .error e
                | .error e => .error e
              else .error .failed
            | _ => .error .internal
          else if a = 0 then .error .internal
          else
            match M with
            | [] => .error .internal
            | cS :: _ =>
              match cS with
              | .elem tyS _ _ kidsS =>
                if !S.compatibleContent tyS tyL then .error .failed else
                match rs, b, M with
                | .deep (.elem tyR _ _ kidsR) innerT rest, b' + 1, [_] =>
                  -- both open and the slice has a single child here: three-way one level down
                  -- (cE = cS): check_join(cE, cR) then check_join(cL, cE)
                  if !S.compatibleContent tyR tyS then .error .failed
                  else if !S.compatibleContent tyS tyL then .error .failed
                  else
                    match threeWay S kidsL (f - 1) 0 kidsS (a - 1) b' kidsR innerT with
                    | .ok inner =>
                      match S.close tyL aL mL (fromArray inner) with
                      | .ok c => .ok (c :: rest)
                      | .error e => .error e
                    | .error e => .error e
                | _, _, _ =>
                  -- check_join(end, to) happens before any two-way work
                  match rightJoinCheck rs b with
                  | .error e => .error e
                  | .ok () =>
                  match twoWay S kidsL (f - 1) kidsS (a - 1) with
                  | .ok lr =>
                    match S.close tyL aL mL (fromArray lr) with
                    | .ok cl =>
                      match rightJoin S M b rs with
                      | .ok rj => .ok (cl :: (middle M true (b != 0) ++ rj ++ rs.rest))
                      | .error e => .error e
                    | .error e => .error e
                  | .error e => .error e
              | _ => .error .internal
where
  /-- placeholder for the early `joinable(end, to)` test; all its failures are `failed`, the same
      class `rightJoin` reports, so only the internal-consistency part is checked here. -/
  rightJoinCheck (rs : RSplit) (b : Nat) : Res Unit :=
    match rs with
    | .flat _ => if b = 0 then .ok () else .error .internal
    | .deep .. => if b = 0 then .error .internal else .ok ()

/-! ### replace_outer / replace -/

/-- spine depth available on the left / right of a fragment (elements only) -/
def spineL : List Node → Nat
  | .elem _ _ _ kids :: _ => 1 + spineL kids
  | _ => 0

def spineR : List Node → Nat
  | [] => 0
  | [.elem _ _ _ kids] => 1 + spineR kids
  | [_] => 0
  | _ :: n :: ns => spineR (n :: ns)

/-- the slice's open depths do not exceed what its content provides -/
def Slice.wf (s : Slice) : Bool := s.openStart ≤ spineL s.content && s.openEnd ≤ spineR s.content

/-- cases 2–4 of `replace_outer` at the level where descent stops: the new (validated) child list
    of a node of type `ty` whose children are `level`; `f`, `t` relative to `level`. -/
def atLevel (S : Schema) (sl : Slice) (ty : TypeId) (level : List Node) (f t extra : Nat) : Res (List Node) :=
  let content : Res (List Node) :=
    if fsize sl.content = 0 then (twoWay S level f level t).map fromArray
    else if sl.openStart = 0 && sl.openEnd = 0 && depthAt level f = 0 && depthAt level t = 0 then
      match fcut level 0 f, fcut level t (fsize level) with
      | .ok l, .ok r => .ok (fappend (fappend l sl.content) r)
      | .error e, _ => .error e
      | _, .error e => .error e
    else (threeWay S level f extra sl.content sl.openStart sl.openEnd level t).map fromArray
  match content with
  | .ok c => if S.validContent ty c then .ok c else .error .failed
  | .error e => .error e

/-- `replace_outer`: descend while both positions are strictly inside the same child and the level
    is above the slice's top level (`extra` levels left); the levels descended through are not
    re-validated.  `level`/`f0`/`t0` describe the current node, `rest`/`f`/`t`/`idx` the scan. -/
def outer (S : Schema) (sl : Slice) :
    (ty : TypeId) → (level : List Node) → (f0 t0 idx : Nat) → (rest : List Node) → (f t extra : Nat) → Res (List Node)
  | ty, level, f0, t0, _, [], _, _, extra => atLevel S sl ty level f0 t0 extra
  | ty, level, f0, t0, idx, n :: ns, f, t, extra =>
    if f = 0 then atLevel S sl ty level f0 t0 extra
    else if n.size ≤ f then outer S sl ty level f0 t0 (idx + 1) ns (f - n.size) (t - n.size) extra
    else match n with
      | .elem tyC aC mC kidsC =>
        if extra ≠ 0 && t < n.size then
          match outer S sl tyC kidsC (f - 1) (t - 1) 0 kidsC (f - 1) (t - 1) (extra - 1) with
          | .ok inner => .ok (level.set idx (.elem tyC aC mC inner))
          | .error e => .error e
        else atLevel S sl ty level f0 t0 extra
      | _ => atLevel S sl ty level f0 t0 extra

/-- which refusal a bad range gets: a position that does not resolve is a `ValueError` (raised by `resolve`, first);
    two resolvable positions with `to < from` are refused by `replace()` itself with a ReplaceError -/
def rangeErr (kids : List Node) (f t : Nat) : Err :=
  if inRange kids f && inRange kids t then .failed else .valueError

/-- `replace(from, to, slice)` on the children of a node of type `ty` (the document).
    A range with `t < f` is refused by `replace()` with a ReplaceError (after both positions resolved). -/
def replaceKids (S : Schema) (ty : TypeId) (kids : List Node) (f t : Nat) (sl : Slice) : Res (List Node) :=
  if !(inRange kids f) || !(inRange kids t) || t < f then .error (rangeErr kids f t)
  else
    let dF := depthAt kids f
    let dT := depthAt kids t
    if sl.openStart > dF then .error .failed
    else if (dF : Int) - sl.openStart ≠ (dT : Int) - sl.openEnd then .error .failed
    else if !sl.wf then .error .internal
    else outer S sl ty kids f t 0 kids f t (dF - sl.openStart)

/-- `Node.replace` -/
def Schema.replace (S : Schema) (doc : Node) (f t : Nat) (sl : Slice) : Res Node :=
  match doc with
  | .elem ty a m kids => (replaceKids S ty kids f t sl).map (Node.elem ty a m ·)
  | _ => .error .internal

/-! ### Node.slice -/

def sliceHere (level : List Node) (f t : Nat) : Res Slice :=
  match fcut level f t with
  | .ok c => .ok ⟨c, depthAt level f, depthAt level t⟩
  | .error e => .error e

/-- descend to the deepest node whose content contains both offsets (`shared_depth`), cut there -/
def sliceScan : (level : List Node) → (f0 t0 : Nat) → (rest : List Node) → (f t : Nat) → Res Slice
  | level, f0, t0, [], _, _ => sliceHere level f0 t0
  | level, f0, t0, n :: ns, f, t =>
    if f = 0 then sliceHere level f0 t0
    else if n.size ≤ f then sliceScan level f0 t0 ns (f - n.size) (t - n.size)
    else match n with
      | .elem _ _ _ kids =>
        if t < n.size then sliceScan kids (f - 1) (t - 1) kids (f - 1) (t - 1)
        else sliceHere level f0 t0
      | _ => sliceHere level f0 t0

/-- `Node.slice(from, to)` on a node's children. Guard: `f ≤ t`. -/
def sliceKids (kids : List Node) (f t : Nat) : Res Slice :=
  if f = t then .ok Slice.empty
  else if !(inRange kids f) || !(inRange kids t) || t < f then .error .valueError
  else sliceScan kids f t kids f t

def Node.slice (n : Node) (f t : Nat) : Res Slice := sliceKids n.kids f t

/-! ### insert_into / remove_range (Slice.insert_at, Slice.remove_between) -/

/-- the flat case of `insert_into` (`offset == dist` or the child at `dist` is a text node): the content is
    *built* first (`content.cut(0, dist).append(insert).append(content.cut(dist))`; a cut inside a surrogate pair
    raises), then, when the receiving node is complete in the slice (`parent`), the built content — with the two
    halves of a split text around the inserted content and adjacent texts joined by `append` — is validated with
    `parent.type.valid_content(result)`; `valid_content` never raises (a non-matching prefix is just `False`).
    `idx` (the child index of `dist`) is no longer consulted. -/
def flatInsert (S : Schema) (ins : List Node) (parent : Option TypeId) (level : List Node) (d _idx : Nat) :
    Res (Option (List Node)) :=
  match fcut level 0 d, fcut level d (fsize level) with
  | .ok l, .ok r =>
    let built := fappend (fappend l ins) r
    match parent with
    | none => .ok (some built)
    | some p => if S.validContent p built then .ok (some built) else .ok none
  | .error e, _ => .error e
  | _, .error e => .error e

/-- `insert_into(content, dist, insert, parent, open_start, open_end)`: the receiving node is
    checked (`valid_content` of the content that is built) when it is complete in the slice; a child on an open side of the slice
    (first child while `oa > 0`, last child while `ob > 0`) is only partly present and is validated
    when the slice is placed, so no check happens for it.  The top call from `Slice.insert_at` has no
    parent. -/
def insertInto (S : Schema) (ins : List Node) :
    (parent : Option TypeId) → (level : List Node) → (d0 idx : Nat) → (rest : List Node) → (d oa ob : Nat) →
      Res (Option (List Node))
  | parent, level, d0, idx, [], d, _, _ =>
    if d = 0 then flatInsert S ins parent level d0 idx else .error .valueError
  | parent, level, d0, idx, n :: ns, d, oa, ob =>
    if d = 0 then flatInsert S ins parent level d0 idx
    else if n.size ≤ d then insertInto S ins parent level d0 (idx + 1) ns (d - n.size) oa ob
    else match n with
      | .elem ty a m kids =>
        let atS := decide (0 < oa) && idx == 0
        let atE := decide (0 < ob) && idx == level.length - 1
        match insertInto S ins (if atS || atE then none else some ty) kids (d - 1) 0 kids (d - 1)
            (if atS then oa - 1 else 0) (if atE then ob - 1 else 0) with
        | .ok (some inner) => .ok (some (level.set idx (.elem ty a m inner)))
        | .ok none => .ok none
        | .error e => .error e
      | _ => flatInsert S ins parent level d0 idx

/-- `Slice.insert_at(pos, fragment)`; `.ok none` = "Content does not fit in gap".
    `if pos < 0 or pos > self.size: return None` comes first (beyond an open side the content would land next to the
    open node and change which node the slice is open through; before that repair a step with `insert > slice.size`
    could return a schema-invalid document).  `pos` is a `Nat` here: a negative `insert` (a peer can send one) is
    outside the model's step type and answered `None` by the code. -/
def Slice.insertAt (S : Schema) (sl : Slice) (pos : Nat) (frag : List Node) : Res (Option Slice) :=
  if sl.size < (pos : Int) then .ok none else
  match insertInto S frag none sl.content (pos + sl.openStart) 0 sl.content (pos + sl.openStart)
      sl.openStart sl.openEnd with
  | .ok (some c) => .ok (some ⟨c, sl.openStart, sl.openEnd⟩)
  | .ok none => .ok none
  | .error e => .error e

/-- is offset `t` at a child boundary or inside a text child of `level`? (for the flatness test) -/
def flatAt : List Node → Nat → Bool
  | [], t => t = 0
  | n :: ns, t =>
    if t = 0 then true
    else if n.size ≤ t then flatAt ns (t - n.size)
    else n.isText

/-- `remove_range(content, from, to)` -/
def removeRange : (level : List Node) → (f0 t0 idx : Nat) → (rest : List Node) → (f t : Nat) → Res (List Node)
  | level, f0, t0, _, [], f, _ =>
    if f = 0 then removeFlat level f0 t0 else .error .valueError
  | level, f0, t0, idx, n :: ns, f, t =>
    if f = 0 then removeFlat level f0 t0
    else if n.size ≤ f then removeRange level f0 t0 (idx + 1) ns (f - n.size) (t - n.size)
    else match n with
      | .elem ty a m kids =>
        -- `index != index_to`: `to` must resolve to the same child index (strictly inside it)
        if t < n.size then
          match removeRange kids (f - 1) (t - 1) 0 kids (f - 1) (t - 1) with
          | .ok inner => .ok (level.set idx (.elem ty a m inner))
          | .error e => .error e
        else .error .valueError
      | _ => removeFlat level f0 t0
where
  removeFlat (level : List Node) (f t : Nat) : Res (List Node) :=
    if !(inRange level t) then .error .valueError
    else if !flatAt level t then .error .valueError
    else
      match fcut level 0 f, fcut level t (fsize level) with
      | .ok l, .ok r => .ok (fappend l r)
      | .error e, _ => .error e
      | _, .error e => .error e

def Slice.removeBetween (sl : Slice) (f t : Nat) : Res Slice :=
  let f' := f + sl.openStart
  let t' := t + sl.openStart
  if t' < f' then .error .valueError else
  match removeRange sl.content f' t' 0 sl.content f' t' with
  | .ok c => .ok ⟨c, sl.openStart, sl.openEnd⟩
  | .error e => .error e

/-! ### Slice.max_open (documented behaviour: isolating nodes stay closed unless asked) -/

def openL (S : Schema) (openIso : Bool) : List Node → Nat
  | .elem t _ _ kids :: _ => if openIso || !(S.nodeType t).isolating then 1 + openL S openIso kids else 0
  | _ => 0

def openR (S : Schema) (openIso : Bool) : List Node → Nat
  | [] => 0
  | [.elem t _ _ kids] => if openIso || !(S.nodeType t).isolating then 1 + openR S openIso kids else 0
  | [_] => 0
  | _ :: n :: ns => openR S openIso (n :: ns)

def Slice.maxOpen (S : Schema) (frag : List Node) (openIso : Bool := true) : Slice :=
  ⟨frag, openL S openIso frag, openR S openIso frag⟩

end PM
