/-
  PM/FitRaiseGuard.lean — decidable guards of the no-raise theorem about the Fitter (Props/C11.lean `fit_no_raise`).

  Inside the loop of `Fitter.fit` the code (prosemirror/transform/replace.py) raises at three places only
  (Props/C11.lean `fit_raise_sites`, and the walk along a stale `open_start`):

  * **start site** — `close_node_start(node, open_start, …)`: `node.type.content_match.fill_before(frag)` answers `None`
    for the children of a node of the slice's open *start* spine (`assert fill_before_frag is not None`);
  * **end site** — `place_nodes`, pushing the open end: `node.content_match_at(node.child_count)` raises `ValueError`
    when the children of a node of the slice's open *end* spine are not a matchable beginning of its content
    expression (finding C11-fitter-partial-node);
  * **stale `open_start`** — `place_nodes` keeps `open_start` when it stops short of the end of a fragment above the
    open level; the next iteration then walks `content_at(…).first_child.content` through a node that is not there
    (`AttributeError` / `AssertionError`).  Excluded by the unplaced slice staying `Slice.wf`.

  `Slice.sitesOk` says what the first two need **in one state** of the loop; `Slice.openPrefixOk` is the static guard on
  the request slice that implies it in every state the loop can reach (children are only ever dropped from the
  front of a start-spine node, so the static guard asks the condition of every *suffix* of a child list);
  `Slice.stableOk` is the static guard under which the unplaced slice stays well-formed.
-/
import PM.Fitter
import PM.FitGuards
namespace PM

/-- `p` holds of every suffix of the list of types (the list itself and `[]` included) -/
def suffixAll (p : List TypeId → Bool) : List TypeId → Bool
  | [] => p []
  | k :: ks => p (k :: ks) && suffixAll p ks

/-! ### what the two raise sites need in one state of the loop -/

/-- **start site**: every node of the open start spine (the first `os` levels of the first-child chain) has a
    type of the schema and children that `fill_before` can put a filling in front of
    (`node.type.content_match.fill_before(node.content)` is not `None`) -/
def Schema.startSiteOk (S : Schema) : Nat → List Node → Bool
  | 0, _ => true
  | os + 1, .elem t _ _ kids :: _ =>
    decide (t < S.nodes.size) && (fillBeforeTypes S (S.dfa t) 0 (S.types kids) false).isSome && S.startSiteOk os kids
  | _ + 1, _ => true

mutual
/-- **end site**: every node of the open end spine (the first `oe` levels of the last-child chain) has children
    that are a matchable beginning of its content expression (`node.content_match_at(node.child_count)` does not
    raise).  `endSiteNode` looks at one node as a last child, `endSiteOk` at the last node of a fragment. -/
def Schema.endSiteNode (S : Schema) : Node → Nat → Bool
  | .elem t _ _ kids, oe + 1 => ((S.dfa t).run 0 (S.types kids)).isSome && S.endSiteOk kids oe
  | _, _ => true
def Schema.endSiteOk (S : Schema) : List Node → Nat → Bool
  | [], _ => true
  | n :: ns, oe => if ns.isEmpty then S.endSiteNode n oe else S.endSiteOk ns oe
end

/-- both sites, for the open depths of the slice as it stands -/
def Slice.sitesOk (S : Schema) (u : Slice) : Bool :=
  S.startSiteOk u.openStart u.content && S.endSiteOk u.content u.openEnd

/-! ### the static guard on the request slice -/

mutual
/-- every non-leaf node of the tree has a type of the schema, and `fill_before` can put a filling in front of every
    suffix of its children.  (`open_more` can open any node of the slice once what precedes it has been placed or
    dropped, and `drop_node` / `place_nodes` take children away from the front of an open node.) -/
def Schema.fillableNode (S : Schema) : Node → Bool
  | .elem t _ _ kids =>
    decide (t < S.nodes.size) &&
      suffixAll (fun ts => (fillBeforeTypes S (S.dfa t) 0 ts false).isSome) (S.types kids) && S.fillableKids kids
  | _ => true
def Schema.fillableKids (S : Schema) : List Node → Bool
  | [] => true
  | n :: ns => S.fillableNode n && S.fillableKids ns
end

mutual
/-- along the whole last-child chain: every suffix of a node's children is a matchable beginning of the node's
    content expression.  (The open end reaches further down the last-child chain when `open_more` opens the only
    node left, and a node that is open on both sides loses children from the front.) -/
def Schema.endChainNode (S : Schema) : Node → Bool
  | .elem t _ _ kids => suffixAll (fun ts => ((S.dfa t).run 0 ts).isSome) (S.types kids) && S.endChainOk kids
  | _ => true
def Schema.endChainOk (S : Schema) : List Node → Bool
  | [] => true
  | n :: ns => if ns.isEmpty then S.endChainNode n else S.endChainOk ns
end

/-- **the guard of `fit_no_raise`** on the request slice: `fillableKids` of its content (start site) and
    `endChainOk` of its content (end site).  Static: it does not mention the open depths — they change over the
    run.  It holds for every slice all of whose non-leaf nodes have "homogeneous" content (`x*`, `x+`, `(x | y)*`:
    every suffix of a matchable sequence is matchable), whatever the open depths; for a content expression with
    positions (`paragraph block*`, `a b`) it asks that no node of the last-child chain has lost, or can lose, its
    leading children — the class of the finding C11-fitter-partial-node is its complement at the end site. -/
def Slice.openPrefixOk (S : Schema) (sl : Slice) : Bool :=
  S.fillableKids sl.content && S.endChainOk sl.content

/-! ### slices that satisfy the static guard whatever was cut off: "homogeneous" content -/

/-- the content automaton of type `w` accepts from its start state whatever is cut off in front of a matchable
    sequence: every edge of every state is also an edge of the start state, with the same target (`x*`, `x+`,
    `(x | y)*`, `title? block*`; not `paragraph block*`, `a b`, `heading body`) -/
def Schema.suffixClosedB (S : Schema) (w : TypeId) : Bool :=
  (List.range (S.dfa w).size).all (fun q => ((S.dfa w).edgesOf q).all (fun e => (S.dfa w).matchType 0 e.1 == some e.2))

mutual
/-- every non-leaf node of the tree has a type whose content is suffix-closed -/
def Schema.homogNode (S : Schema) : Node → Bool
  | .elem t _ _ kids => S.suffixClosedB t && S.homogKids kids
  | _ => true
def Schema.homogKids (S : Schema) : List Node → Bool
  | [] => true
  | n :: ns => S.homogNode n && S.homogKids ns
end

/-- every node type of the schema has suffix-closed content (the bundled `basic` schema, for instance) -/
def Schema.homogSchemaB (S : Schema) : Bool := (List.range S.nodes.size).all S.suffixClosedB

/-! ### the unplaced slice stays well-formed: as a run hypothesis, and a static guard that implies it -/

/-- the unplaced slice is `Slice.wf` in this state and after every iteration **for as long as the loop runs**: an
    iteration that fails ends the test (with `true`: nothing is presupposed about the run going through), and so
    does running out of fuel.  (Evaluation helper for a hypothesis about the run, not a model of library code.) -/
def wfWhile (S : Schema) : Nat → FitState → Bool
  | 0, st => st.unplaced.wf
  | fuel + 1, st =>
    st.unplaced.wf &&
      (if st.unplaced.size == 0 then true
       else match fitStep S st with
         | .ok st' => wfWhile S fuel st'
         | .error _ => true)

/-- **the unplaced slice stays well-formed while the Fitter runs** (vacuously true when the Fitter is not
    reached).  Unlike `unplacedWfRun` (PM/Fitter.lean) it does not presuppose that the loop returns. -/
def unplacedWfWhile (S : Schema) (doc : Node) (f t : Nat) (sl : Slice) : Bool :=
  if f == t && sl.size == 0 then true
  else
    match doc.resolve f, doc.resolve t with
    | some rf, some rt =>
      match fitsTriviallyR S rf rt sl with
      | some false =>
        match fitInit S rf sl with
        | .ok st0 => wfWhile S (fitFuel S sl) st0
        | .error _ => true
      | _ => true
    | _, _ => true

/-- the first state of the run (with something left to place) in which the unplaced slice is not well-formed or fails a
    site condition: `(wf, startSiteOk, endSiteOk)` there; `none` = there is no such state before the loop ends, fails
    or runs out of fuel.  Props/C11.lean `fit_raises_only_at_sites`: a run that raises has one.  (Evaluation helper.) -/
def firstBadState (S : Schema) : Nat → FitState → Option (Bool × Bool × Bool)
  | 0, _ => none
  | fuel + 1, st =>
    if st.unplaced.size == 0 then none
    else
      let u := st.unplaced
      let w := u.wf
      let a := S.startSiteOk u.openStart u.content
      let b := S.endSiteOk u.content u.openEnd
      if w && a && b then
        match fitStep S st with
        | .ok st' => firstBadState S fuel st'
        | .error _ => none
      else some (w, a, b)

/-- `firstBadState` for a request (`none` also when the Fitter is not reached) -/
def requestBadState (S : Schema) (doc : Node) (f t : Nat) (sl : Slice) : Option (Bool × Bool × Bool) :=
  if f == t && sl.size == 0 then none
  else
    match doc.resolve f, doc.resolve t with
    | some rf, some rt =>
      match fitsTriviallyR S rf rt sl with
      | some false =>
        match fitInit S rf sl with
        | .ok st0 => firstBadState S (fitFuel S sl) st0
        | .error _ => none
      | _ => none
    | _, _ => none

/-- wherever a node of type `a` is accepted, a node of type `b` is accepted right behind it: for every state of
    every content automaton of the schema -/
def Schema.followsB (S : Schema) (a b : TypeId) : Bool :=
  (List.range S.nodes.size).all (fun w => (List.range (S.dfa w).size).all (fun q =>
    match (S.dfa w).matchType q a with
    | some q1 => ((S.dfa w).matchType q1 b).isSome
    | none => true))

mutual
/-- in every fragment of the tree: each node is followed by a node that fits wherever the first one does
    (`followsB`: the take loop of `place_nodes`, once it has taken a node, takes its siblings too, so it never
    stops short of the end of a fragment and `open_start` never goes stale), and no leaf or text node comes
    directly behind a non-leaf node (so a fragment that ends in a leaf consists of leaves only: `open_more` never
    raises `open_end` past a leaf; and the one node the take loop can stop at — the sibling of an empty start-open
    node it has skipped — can stand for an open node) -/
def Schema.stableNode (S : Schema) : Node → Bool
  | .elem _ _ _ kids => S.stableKids kids
  | .text s _ => !s.isEmpty       -- `TextNode.__init__` refuses the empty string
  | .leaf .. => true
def Schema.stableKids (S : Schema) : List Node → Bool
  | [] => true
  | a :: rest =>
    (match rest with
     | [] => true
     | b :: _ => S.followsB (S.tyOf a) (S.tyOf b) && (a.isLeaf || !b.isLeaf)) &&
      S.stableNode a && S.stableKids rest
end

/-- **the static guard under which the unplaced slice stays well-formed** -/
def Slice.stableOk (S : Schema) (sl : Slice) : Bool := S.stableKids sl.content

end PM
