/-
  PM/StructEdit.lean — model of the four structural edit builders of prosemirror/transform/transform.py
  (property C12): the step that

  * `Transform.lift(range, target)`            — a `ReplaceAroundStep`
  * `Transform.wrap(range, wrappers)`          — a `ReplaceAroundStep`
  * `Transform.split(pos, depth, types_after = None)` — a `ReplaceStep`
  * `Transform.join(pos, depth)`               — a `ReplaceStep`

  hands to `Transform.step`, reproduced as the code computes it (fragments `before` / `after`,
  `open_start` / `open_end`, the gap, `insert`, the `structure = True` flag).  The result is the step or
  the class of the exception raised *while building* it (`.internal` = IndexError on a path access,
  `.valueError` = position out of range / `NodeType.create`, `.failed` = the TransformError of `wrap`);
  whether the step then applies is `Schema.apply` (PM/Step.lean).
-/
import PM.Basic
import PM.Fragment
import PM.Content
import PM.Resolve
import PM.Step
namespace PM

/-! ### path accessors as the builders use them -/

/-- `pos_.node(d)` for a depth that may be negative.  `resolve_depth` turns `d < 0` into
    `self.depth + d`; the result `k` indexes the path list at `3k`, so a still-negative `k` wraps
    around once (Python list indexing) and anything outside `-len ≤ k < len` is an `IndexError`. -/
def RPos.nodeI (r : RPos) (d : Int) : Option Node :=
  let k : Int := if d < 0 then (r.depth : Int) + d else d
  let len : Int := (r.depth : Int) + 1
  if 0 ≤ k ∧ k < len then some (r.node k.toNat)
  else if -len ≤ k ∧ k < 0 then some (r.node (k + len).toNat)
  else none

/-- `to.after(d)` for `1 ≤ d ≤ to.depth + 1` (the only depths `lift` asks once `to.after(depth + 1)`
    has succeeded) -/
def RPos.afterT (r : RPos) (d : Nat) : Nat :=
  if d = r.depth + 1 then r.pos else (r.entry (d - 1)).pos + (r.node d).size

/-- `Fragment.from_(n₁.copy(Fragment.from_(n₂.copy(…))))`, outermost node first -/
def nestOut : List Node → List Node
  | [] => []
  | n :: rest => [n.withKids (nestOut rest)]

/-! ### lift -/

/-- one of the two `while d > target` loops of `lift` (they differ in the path they read, in the
    "does this level have to be split" test and in the direction the outer position moves).
    The first argument counts the remaining iterations, `d = target + n + 1`.  State: the fragment
    built so far, the number of opened levels, the number of levels passed without splitting, the
    `splitting` flag. -/
def liftSide (nodeAt : Nat → Node) (splitsAt : Nat → Bool) (target : Nat) :
    Nat → List Node → Nat → Nat → Bool → List Node × Nat × Nat
  | 0, frag, opened, moved, _ => (frag, opened, moved)
  | n + 1, frag, opened, moved, splitting =>
    let d := target + n + 1
    if splitting || splitsAt d then
      liftSide nodeAt splitsAt target n [(nodeAt d).withKids frag] (opened + 1) moved true
    else liftSide nodeAt splitsAt target n frag opened (moved + 1) false

/-- `Transform.lift(NodeRange(from, to, depth), target)` up to the call of `self.step`.
    `from.before(depth + 1)` / `to.after(depth + 1)` raise `IndexError` when `depth` exceeds the depth
    of the position. -/
def liftStepR (f t : RPos) (depth target : Nat) : Res Step :=
  match f.before (depth + 1) with
  | none => .error .internal
  | some gapStart =>
    match t.after (depth + 1) with
    | none => .error .internal
    | some gapEnd =>
      let (before, openStart, movedL) :=
        liftSide f.node (fun d => decide (0 < f.index d)) target (depth - target) [] 0 0 false
      let (after, openEnd, movedR) :=
        liftSide t.node (fun d => decide (t.afterT (d + 1) < t.end_ d)) target (depth - target) [] 0 0 false
      .ok (.replaceAround (gapStart - movedL) (gapEnd + movedR) gapStart gapEnd
        ⟨fappend before after, openStart, openEnd⟩ (fsize before - openStart) true)

/-- `lift` on the range `NodeRange(doc.resolve(a), doc.resolve(b), depth)` -/
def liftStep (doc : Node) (a b depth target : Nat) : Res Step :=
  match doc.resolve a, doc.resolve b with
  | some f, some t => liftStepR f t depth target
  | _, _ => .error .valueError

/-! ### wrap -/

/-- the `while i >= 0` loop of `wrap` (innermost wrapper = last element, handled first).
    A wrapper is `(type, attrs)`, `attrs = []` standing for `None`.  `NodeType.create` refuses the text
    type and a missing attribute without default (both `ValueError`); a leaf type creates a leaf
    node (only possible for the innermost wrapper: on non-empty content its automaton has no edge
    and the content test raises first). -/
def wrapContent (S : Schema) : List (TypeId × Attrs) → Res (List Node)
  | [] => .ok []
  | (ty, given) :: rest =>
    match wrapContent S rest with
    | .error e => .error e
    | .ok content =>
      if fsize content ≠ 0 && !(S.dfa ty).accepts (S.types content) then .error .failed
      else if (S.nodeType ty).isText then .error .valueError
      else
        match computeAttrs (S.nodeType ty).attrs given with
        | .error e => .error e
        | .ok a =>
          if (S.nodeType ty).isLeaf then (if content.isEmpty then .ok [.leaf ty a []] else .error .failed)
          else .ok [.elem ty a [] content]

/-- `Transform.wrap(NodeRange(from, to, depth), wrappers)` up to the call of `self.step`
    (`range_.start` / `range_.end` are read after the content was built) -/
def wrapStepR (S : Schema) (f t : RPos) (depth : Nat) (wrappers : List (TypeId × Attrs)) : Res Step :=
  match wrapContent S wrappers with
  | .error e => .error e
  | .ok content =>
    match f.before (depth + 1) with
    | none => .error .internal
    | some s =>
      match t.after (depth + 1) with
      | none => .error .internal
      | some e => .ok (.replaceAround s e s e ⟨content, 0, 0⟩ wrappers.length true)

def wrapStep (S : Schema) (doc : Node) (a b depth : Nat) (wrappers : List (TypeId × Attrs)) : Res Step :=
  match doc.resolve a, doc.resolve b with
  | some f, some t => wrapStepR S f t depth wrappers
  | _, _ => .error .valueError

/-! ### split (types_after = None) -/

/-- the nodes `pos_.node(d)`, `pos_.node(d + 1)`, … (`n` of them); `none` = one of the accesses is an
    `IndexError` -/
def splitNodesFrom (r : RPos) (d : Int) : Nat → Option (List Node)
  | 0 => some []
  | n + 1 =>
    match r.nodeI d, splitNodesFrom r (d + 1) n with
    | some x, some xs => some (x :: xs)
    | _, _ => none

/-- the nodes `pos_.node(d)` for `d = pos_.depth - depth + 1 … pos_.depth`, outermost first;
    `none` = `IndexError` (`depth` exceeding `2 * pos_.depth + 2`: before that the negative depths wrap
    around, see `RPos.nodeI`) -/
def splitNodes (r : RPos) (depth : Nat) : Option (List Node) :=
  splitNodesFrom r ((r.depth : Int) - (depth : Int) + 1) depth

/-- `Transform.split(pos, depth)` up to the call of `self.step`: `before` and `after` are the same
    nest of empty copies of the ancestors, the slice is open by `depth` on both sides -/
def splitStep (doc : Node) (pos depth : Nat) : Res Step :=
  match doc.resolve pos with
  | none => .error .valueError
  | some r =>
    match splitNodes r depth with
    | none => .error .internal
    | some nodes =>
      let w := nestOut nodes
      .ok (.replace pos pos ⟨fappend w w, depth, depth⟩ true)

/-! ### join -/

/-- `Transform.join(pos, depth)`: `ReplaceStep(pos - depth, pos + depth, Slice.empty, True)`.
    For `pos < depth` the code builds a step with a negative start, which `Step` cannot hold; applying
    it raises `ValueError` ("Position … out of range", from `content_between`), which is what the
    error stands for. -/
def joinStep (pos depth : Nat) : Res Step :=
  if pos < depth then .error .valueError
  else .ok (.replace (pos - depth) (pos + depth) Slice.empty true)

/-! ### the guard of "an approved wrap applies" (Props/C12.lean `findWrapping_wrap_applies`) -/

/-- what `find_wrapping` does not look at: it walks the innermost wrapper's automaton over the *types* of the
    nodes of the range (`find_wrapping_inside`), the wrap itself asks that wrapper whether the content it is
    given is valid (`Slice.insert_at` → `insert_into` → `valid_content` of the built content), which also wants the
    wrapper to allow the *marks* of every node of the range.  (First conjunct: no wrapper type is a leaf type.  In a compiled schema a leaf type has no content
    edges, so `find_wrapping` never approves one; the model's schema tables do not enforce that.) -/
def wrapGuardR (S : Schema) (f t : RPos) (depth : Nat) (wrappers : List (TypeId × Attrs)) : Bool :=
  wrappers.all (fun w => !(S.nodeType w.1).isLeaf) &&
  match wrappers.getLast? with
  | some w =>
    (cutByIndex (f.node depth).kids (f.index depth) (t.indexAfter depth)).all
      (fun k => (S.nodeType w.1).allowsMarks k.marks)
  | none => false

def wrapGuard (S : Schema) (doc : Node) (a b depth : Nat) (wrappers : List (TypeId × Attrs)) : Bool :=
  match doc.resolve a, doc.resolve b with
  | some f, some t => wrapGuardR S f t depth wrappers
  | _, _ => true

/-- … and what it does not look at either: `Transform.wrap` wants every wrapper to accept the next one as its
    *only* child (`match_fragment(content).valid_end`, a `TransformError` otherwise).  The chain `find_wrapping`
    returns is `around ++ [type] ++ inside`, the results of two separate searches; `compute_wrapping` ends a
    search as soon as `match_type(target)` succeeds, so the last wrapper of `around` need only accept `type`
    as *first* child, and `type` need only accept the first wrapper of `inside` as first child.  (Also here:
    the attributes given for `type` are complete and `type` is not the text type, both `ValueError` in
    `NodeType.create`.)  This is "building the step succeeds", on the wrappers alone. -/
def wrapBuilds (S : Schema) (wrappers : List (TypeId × Attrs)) : Bool :=
  match wrapContent S wrappers with
  | .ok _ => true
  | .error _ => false
/-! ### lift: the guard of "an approved lift applies" when nothing has to be split -/

/-- the lift splits nothing: at every level `d` with `target < d ≤ depth` the range starts at the first
    child (`from.index(d) == 0`) and ends at the last (`to.after(d + 1) == to.end(d)`), i.e. the two tests of the
    `while d > target` loops of `lift` are false throughout and both loops only move the outer positions -/
def liftFlatGuardR (f t : RPos) (depth target : Nat) : Bool :=
  (List.range (depth - target)).all fun i =>
    !decide (0 < f.index (target + i + 1)) &&
      !decide (t.afterT (target + i + 1 + 1) < t.end_ (target + i + 1))

def liftFlatGuard (doc : Node) (a b depth target : Nat) : Bool :=
  match doc.resolve a, doc.resolve b with
  | some f, some t => liftFlatGuardR f t depth target
  | _, _ => true

/-! ### lift: the guard of "an approved lift applies" in general -/

/-- one side of the split a lift performs, recomputed level by level (the loop shape of `liftSide`): the node
    the split leaves behind at the current level (`none` while nothing is split) and whether every such node so
    far is valid content for its type.  `keep d` = the children of `node(d)` that stay on this side (before the
    range on the left, after it on the right); `put` places the copy left one level deeper among them (last on the
    left, first on the right). -/
def liftPieces (S : Schema) (nodeAt : Nat → Node) (splitsAt : Nat → Bool) (keep : Nat → List Node)
    (put : List Node → List Node → List Node) (target : Nat) : Nat → Option Node → Bool → Option Node × Bool
  | 0, acc, ok => (acc, ok)
  | n + 1, acc, ok =>
    let d := target + n + 1
    if acc.isSome || splitsAt d then
      let kids := put (keep d) acc.toList
      liftPieces S nodeAt splitsAt keep put target n (some ((nodeAt d).withKids kids))
        (ok && S.validContent (S.tyOf (nodeAt d)) kids)
    else liftPieces S nodeAt splitsAt keep put target n none ok

/-- what neither `can_cut` nor `lift_target`'s `can_replace(index, end_index, content)` looks at: every node the
    split leaves behind — on the left the children before the range plus the copy left one level deeper, on the
    right that copy plus the children after the range — is valid content for its type, and the node at `target`
    accepts its new child list *with the two copies in place*: children before, left copy, the lifted nodes, right
    copy, children after.  (When nothing is split this is the approval itself.) -/
def liftGuardR (S : Schema) (f t : RPos) (depth target : Nat) : Bool :=
  let (left, okL) := liftPieces S f.node (fun d => decide (0 < f.index d))
    (fun d => (f.node d).kids.take (f.index d)) (fun k c => k ++ c) target (depth - target) none true
  let (right, okR) := liftPieces S t.node (fun d => decide (t.afterT (d + 1) < t.end_ d))
    (fun d => (t.node d).kids.drop (t.indexAfter d)) (fun k c => c ++ k) target (depth - target) none true
  let node := f.node target
  let mid := cutByIndex (f.node depth).kids (f.index depth) (t.indexAfter depth)
  okL && okR &&
    S.validContent (S.tyOf node)
      (node.kids.take (f.index target) ++ left.toList ++ mid ++ right.toList ++ node.kids.drop (t.indexAfter target))

def liftGuard (S : Schema) (doc : Node) (a b depth target : Nat) : Bool :=
  match doc.resolve a, doc.resolve b with
  | some f, some t => liftGuardR S f t depth target
  | _, _ => true

end PM
