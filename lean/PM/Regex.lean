/-
  PM/Regex.lean — content expressions read as regular expressions over node types (C06):
  * `RE`, Antimirov partial derivatives, a Bool matcher;
  * `specParse`: my reading of the documented content-expression grammar (sequence, `|`, `? * +`,
    `{n} {n,} {n,m}`, parentheses, groups expanded in schema order, inline/block mixing rule) — this
    *is* the specification of "the expression read as a regular expression", kept small; a total
    function (recursive descent with a recursion allowance that is never used up), proved to read
    every expression as the model of the code's parser does (`Props/C06.lean: parse_agrees`);
  * `isBisim` / `equivCheck`: a checkable certificate that a compiled automaton (dumped from the
    running code) and an expression accept the same sequences and keep the same prefixes alive;
  * `explore`: (unverified) search producing such a certificate, and the spec-level dead-end test.
  Core Lean only.
-/
import PM.Basic
import PM.Content
namespace PM

inductive RE where
  | eps
  | sym (t : Nat)
  | alt (a b : RE)
  | seq (a b : RE)
  | star (a : RE)
deriving DecidableEq, Repr, Inhabited

namespace RE

def nullable : RE → Bool
  | eps => true
  | sym _ => false
  | alt a b => a.nullable || b.nullable
  | seq a b => a.nullable && b.nullable
  | star _ => true

/-- `seq` with the unit law `eps · s = s` applied (keeps the set of partial derivatives finite) -/
def mkSeq (a b : RE) : RE :=
  match a with
  | eps => b
  | _ => seq a b

/-- Antimirov partial derivatives: a finite *set* (list) of expressions whose union is the derivative -/
def pd : RE → Nat → List RE
  | eps, _ => []
  | sym b, a => if a = b then [eps] else []
  | alt r s, a => pd r a ++ pd s a
  | seq r s, a => (pd r a).map (fun r' => mkSeq r' s) ++ (if r.nullable then pd s a else [])
  | star r, a => (pd r a).map (fun r' => mkSeq r' (star r))

/-- derivative of a set of expressions, duplicates removed -/
def pdSet (rs : List RE) (a : Nat) : List RE := (rs.flatMap (fun r => pd r a)).eraseDups

def nullableSet (rs : List RE) : Bool := rs.any nullable

/-- matcher: does the union of `rs` accept `w`? -/
def matchSet : List RE → List Nat → Bool
  | rs, [] => nullableSet rs
  | rs, a :: w => matchSet (pdSet rs a) w

def rmatch (r : RE) (w : List Nat) : Bool := matchSet [r] w

/-- sugar of the content-expression grammar -/
def plus (r : RE) : RE := seq r (star r)
def opt (r : RE) : RE := alt eps r
def rep (r : RE) : Nat → RE
  | 0 => eps
  | n + 1 => seq r (rep r n)
/-- `r{min,max}`; `max = none` is `{min,}` -/
def range (r : RE) (min : Nat) (max : Option Nat) : RE :=
  match max with
  | none => seq (rep r min) (star r)
  | some m => seq (rep r min) (rep (opt r) (m - min))

def alts : List RE → RE
  | [] => eps            -- never used with an empty list (an unknown name is an error)
  | [r] => r
  | r :: rs => alt r (alts rs)

def seqs : List RE → RE
  | [] => eps
  | [r] => r
  | r :: rs => seq r (seqs rs)

/-- the node types an expression mentions -/
def syms : RE → List Nat
  | eps => []
  | sym t => [t]
  | alt a b => a.syms ++ b.syms
  | seq a b => a.syms ++ b.syms
  | star a => a.syms

/-- same elements (as sets) -/
def sameSet (a b : List RE) : Bool := a.all (b.contains ·) && b.all (a.contains ·)

end RE

/-! ### certificate check: automaton ≃ expression -/

/-- One entry of a certificate: automaton state `q` is related to the set of expressions `rs`. -/
abbrev Cert := List (Nat × List RE)

/-- `V` is closed: related pairs agree on finality, every automaton edge is matched by the partial
    derivative set (up to set equality) of a related pair, and where the automaton has no edge the
    derivative set is empty; edges only carry letters of the alphabet. -/
def isBisim (d : Dfa) (sigma : List Nat) (V : Cert) : Bool :=
  V.all (fun (q, rs) =>
    d.validEnd q == RE.nullableSet rs &&
    (d.edgesOf q).all (fun e => sigma.contains e.1) &&
    sigma.all (fun a =>
      let rs' := RE.pdSet rs a
      match d.matchType q a with
      | some q' => V.any (fun (p, ps) => p == q' && RE.sameSet ps rs')
      | none => rs'.isEmpty))

/-- every related pair is alive: its expression set is non-empty (expressions without `zero` always
    have a word) -/
def allAlive (V : Cert) : Bool := V.all (fun (_, rs) => !rs.isEmpty)

def equivCheck (d : Dfa) (sigma : List Nat) (r : RE) (V : Cert) : Bool :=
  V.any (fun (q, rs) => q == 0 && RE.sameSet rs [r]) && isBisim d sigma V && allAlive V &&
  r.syms.all (sigma.contains ·)

/-! ### (unverified) certificate search and spec-level dead-end test -/

/-- explore the product of the automaton and the expression; returns the visited pairs, or `none`
    when they visibly disagree (the caller then looks for a distinguishing sequence) -/
def explore (d : Dfa) (sigma : List Nat) : (fuel : Nat) → (todo : Cert) → (seen : Cert) → Option Cert
  | 0, _, _ => none
  | _ + 1, [], seen => some seen.reverse
  | fuel + 1, (q, rs) :: todo, seen =>
    if seen.any (fun (p, ps) => p == q && RE.sameSet ps rs) then explore d sigma fuel todo seen
    else
      let next := sigma.filterMap (fun a =>
        match d.matchType q a with
        | some q' => some (q', RE.pdSet rs a)
        | none => none)
      explore d sigma fuel (todo ++ next) ((q, rs) :: seen)

def findCert (d : Dfa) (sigma : List Nat) (r : RE) : Option Cert := explore d sigma 200000 [(0, [r])] []

/-- states (expression sets) reachable from `r`, for the spec-level dead-end test -/
def reachSets (sigma : List Nat) : (fuel : Nat) → (todo : List (List RE)) → (seen : List (List RE)) → Option (List (List RE))
  | 0, [], seen => some seen
  | 0, _ :: _, _ => none          -- the exploration did not finish: no verdict
  | _ + 1, [], seen => some seen
  | fuel + 1, rs :: todo, seen =>
    if seen.any (RE.sameSet · rs) then reachSets sigma fuel todo seen
    else
      let next := (sigma.map (RE.pdSet rs ·)).filter (!·.isEmpty)
      reachSets sigma fuel (todo ++ next) (rs :: seen)

/-- the reachable states from which a valid end can be reached through generatable letters only
    (backward closure from the nullable states; `fuel` rounds, one per reachable state suffices) -/
def liveSets (sigma : List Nat) (generatable : Nat → Bool) (all : List (List RE)) : Nat → List (List RE) → List (List RE)
  | 0, live => live
  | fuel + 1, live =>
    let more := all.filter (fun rs =>
      !live.any (RE.sameSet · rs) &&
      sigma.any (fun a => generatable a && live.any (RE.sameSet · (RE.pdSet rs a))))
    if more.isEmpty then live else liveSets sigma generatable all fuel (live ++ more)

/-- a *required position only non-generatable nodes can fill*: from some reachable state no valid end can
    be reached by generatable nodes alone — every way to complete the content from there passes through a
    non-generatable node.  (The reading is global on purpose: in `(a a)* a img` every state *offers* the
    generatable `a`, yet no match can end without the `img`.) -/
def hasDeadEndWith? (fuel : Nat) (sigma : List Nat) (generatable : Nat → Bool) (r : RE) : Option Bool :=
  match reachSets sigma fuel [[r]] [] with
  | none => none                  -- too many derivative sets for the allowance: unknown
  | some all =>
    let live := liveSets sigma generatable all (all.length + 1) (all.filter RE.nullableSet)
    some (all.any (fun rs => !live.any (RE.sameSet · rs)))

/-- … with the allowance of the driver.  Whenever it answers, the answer is the declarative `DeadEndSpec`
    (`Proofs/SpecDeadEnd.lean: hasDeadEnd?_spec`); it answers for every expression with
    `1 + 2 ^ (#partial derivatives + 1) * #sigma ≤ 200000` (`Proofs/SpecDeadEndFuel.lean`), and with the allowance
    `reachFuel` for every expression. -/
def hasDeadEnd? (sigma : List Nat) (generatable : Nat → Bool) (r : RE) : Option Bool :=
  hasDeadEndWith? 200000 sigma generatable r

def hasDeadEnd (sigma : List Nat) (generatable : Nat → Bool) (r : RE) : Bool :=
  (hasDeadEnd? sigma generatable r).getD false

/-! ### the content-expression grammar -/

structure NameInfo where
  name     : String
  groups   : List String
  isInline : Bool
deriving Repr, Inhabited

inductive PErr where
  | syntax | unknownName | mixed
deriving Repr, DecidableEq, Inhabited

def isWordChar (c : Char) : Bool := c.isAlphanum || c == '_'

/-- `str.isspace()` of one character: the one-character tokens `TokenStream` drops (`if i.strip()`) -/
def isSpaceChar (c : Char) : Bool :=
  let n := c.toNat
  (9 ≤ n && n ≤ 13) || (28 ≤ n && n ≤ 32) || n == 0x85 || n == 0xA0 || n == 0x1680 ||
  (0x2000 ≤ n && n ≤ 0x200A) || n == 0x2028 || n == 0x2029 || n == 0x202F || n == 0x205F || n == 0x3000

/-- tokens: maximal runs of word characters, or single non-space characters -/
def tokenize (s : String) : List String :=
  let rec go : List Char → List Char → List String → List String
    | [], cur, acc => (if cur.isEmpty then acc else String.ofList cur.reverse :: acc).reverse
    | c :: cs, cur, acc =>
      if isWordChar c then go cs (c :: cur) acc
      else
        let acc := if cur.isEmpty then acc else String.ofList cur.reverse :: acc
        if isSpaceChar c then go cs [] acc else go cs [] (String.singleton c :: acc)
  go s.toList [] []

def isWordTok (t : String) : Bool := !t.isEmpty && t.toList.all isWordChar
def isNumTok (t : String) : Bool := !t.isEmpty && t.toList.all Char.isDigit

/-- the parser state: the tokens left, and whether the names seen so far are inline (`none`: no name yet) -/
structure PState where
  toks   : List String
  inline : Option Bool := none

/-- the value of a decimal digit string -/
def decimal (t : String) : Nat := t.toList.foldl (fun n c => 10 * n + (c.toNat - '0'.toNat)) 0

/-- a name: the node type of that name, else the members of the group of that name in schema order.  All the
    types an expression names must be inline, or all block (`inl`: what the names before this one were). -/
def sName (table : List NameInfo) (name : String) (inl : Option Bool) : Except PErr (RE × Option Bool) :=
  let ids : List Nat := match table.findIdx? (·.name == name) with
    | some i => [i]
    | none => (List.range table.length).filter (fun i => (table[i]!).groups.contains name)
  let flags := ids.map (fun i => (table[i]!).isInline)
  let first := inl.getD (flags.headD false)
  if ids.isEmpty then .error .unknownName
  else if flags.all (· == first) then .ok (RE.alts (ids.map RE.sym), some first)
  else .error .mixed

/-- the postfix operators after an atom, applied left to right: `+ * ?` and the counts `{n} {n,} {n,m}`
    (plain decimal numbers) -/
def sSuffix (r : RE) : List String → Except PErr (RE × List String)
  | "+" :: ts => sSuffix (RE.plus r) ts
  | "*" :: ts => sSuffix (RE.star r) ts
  | "?" :: ts => sSuffix (RE.opt r) ts
  | "{" :: n :: "}" :: ts =>
    if isNumTok n then sSuffix (RE.range r (decimal n) (some (decimal n))) ts else .error .syntax
  | "{" :: n :: "," :: "}" :: ts =>
    if isNumTok n then sSuffix (RE.range r (decimal n) none) ts else .error .syntax
  | "{" :: n :: "," :: m :: "}" :: ts =>
    if isNumTok n && isNumTok m then sSuffix (RE.range r (decimal n) (some (decimal m))) ts else .error .syntax
  | "{" :: _ => .error .syntax
  | ts => .ok (r, ts)

/-- what a grammar function returns: the expression read and the state after it, or the reason of the refusal;
    `none`: the recursion allowance (first argument of the functions below, one unit per call) is used up —
    never the case in `specParse` (`Props/C06.lean: specParse_allowance`) -/
abbrev SRes := Option (Except PErr (RE × PState))

mutual
/-- `expr ::= seq ("|" seq)*` -/
def sExpr (table : List NameInfo) : Nat → PState → SRes
  | 0, _ => none
  | k + 1, st =>
    match sSeq table k st with
    | some (.ok (r, st)) =>
      match st.toks with
      | "|" :: ts =>
        match sExpr table k { st with toks := ts } with
        | some (.ok (r', st)) => some (.ok (RE.alt r r', st))
        | other => other
      | _ => some (.ok (r, st))
    | other => other
/-- `seq ::= sub+`, up to a `)`, a `|` or the end -/
def sSeq (table : List NameInfo) : Nat → PState → SRes
  | 0, _ => none
  | k + 1, st =>
    match sSub table k st with
    | some (.ok (r, st)) =>
      if st.toks.isEmpty || st.toks.head? == some ")" || st.toks.head? == some "|" then some (.ok (r, st))
      else
        match sSeq table k st with
        | some (.ok (r', st)) => some (.ok (RE.seq r r', st))
        | other => other
    | other => other
/-- `sub ::= atom suffix*` -/
def sSub (table : List NameInfo) : Nat → PState → SRes
  | 0, _ => none
  | k + 1, st =>
    match sAtom table k st with
    | some (.ok (r, st)) =>
      match sSuffix r st.toks with
      | .ok (r, ts) => some (.ok (r, { st with toks := ts }))
      | .error e => some (.error e)
    | other => other
/-- `atom ::= "(" expr ")" | name` -/
def sAtom (table : List NameInfo) : Nat → PState → SRes
  | 0, _ => none
  | k + 1, st =>
    match st.toks with
    | [] => some (.error .syntax)
    | "(" :: ts =>
      match sExpr table k { st with toks := ts } with
      | some (.ok (r, st)) =>
        match st.toks with
        | ")" :: ts => some (.ok (r, { st with toks := ts }))
        | _ => some (.error .syntax)
      | other => other
    | t :: ts =>
      if isWordTok t then
        match sName table t st.inline with
        | .ok (r, inl) => some (.ok (r, { toks := ts, inline := inl }))
        | .error e => some (.error e)
      else some (.error .syntax)
end

/-- the content expression read as a regular expression: no token is `eps`; text after the expression is a syntax
    error.  (The allowance `4 * #tokens + 4` is never used up.) -/
def specParse (table : List NameInfo) (expr : String) : Except PErr RE :=
  let toks := tokenize expr
  if toks.isEmpty then .ok RE.eps
  else
    match sExpr table (4 * toks.length + 4) { toks := toks } with
    | some (.ok (r, st)) => if st.toks.isEmpty then .ok r else .error .syntax
    | some (.error e) => .error e
    | none => .error .syntax

/-- shortest sequence (over `sigma`, length ≤ `maxLen`) on which automaton and expression disagree -/
def distinguish (d : Dfa) (sigma : List Nat) (r : RE) (maxLen : Nat) : Option (List Nat × Bool × Bool) :=
  let rec bfs : Nat → List (List Nat) → Option (List Nat × Bool × Bool)
    | 0, _ => none
    | fuel + 1, frontier =>
      match frontier.find? (fun w => d.accepts w != RE.rmatch r w) with
      | some w => some (w, d.accepts w, RE.rmatch r w)
      | none =>
        -- also compare prefix liveness
        match frontier.find? (fun w => (d.run 0 w).isSome != !(RE.matchSetLive [r] w)) with
        | some w => some (w, (d.run 0 w).isSome, !(RE.matchSetLive [r] w))
        | none =>
          let next := frontier.flatMap (fun w => sigma.map (fun a => w ++ [a]))
          if next.length > 20000 then none else bfs fuel next
  bfs (maxLen + 1) [[]]
where
  /-- the derivative set after `w` is empty (no extension can match) -/
  RE.matchSetLive : List RE → List Nat → Bool
    | rs, [] => rs.isEmpty
    | rs, a :: w => RE.matchSetLive (RE.pdSet rs a) w

/-- witness search on the product of the automaton and the expression's derivative sets (breadth first, each
    product state once): finds a shortest disagreeing sequence however long it has to be.  A pair is
    `(automaton state or none once it has no edge, derivative set, word that leads there)`; a disagreement is a
    different accept verdict, or the automaton dying while the expression can still continue (or the reverse).
    Search code, not part of any proof. -/
def distinguishProduct (d : Dfa) (sigma : List Nat) (r : RE) (fuel : Nat := 6000) : Option (List Nat × Bool × Bool) :=
  let rec go : Nat → List (Option Nat × List RE × List Nat) → List (Option Nat × List RE) → Option (List Nat × Bool × Bool)
    | 0, _, _ => none
    | _ + 1, [], _ => none
    | fuel + 1, (q, rs, w) :: todo, seen =>
      let acc := match q with | some q => d.validEnd q | none => false
      let racc := RE.nullableSet rs
      if acc != racc then some (w.reverse, acc, racc)
      else if q.isNone && rs.isEmpty then go fuel todo seen
      else if seen.any (fun (p, ps) => p == q && RE.sameSet ps rs) then go fuel todo seen
      else
        let next := sigma.map (fun a =>
          ((match q with | some q => d.matchType q a | none => none), RE.pdSet rs a, a :: w))
        go fuel (todo ++ next) ((q, rs) :: seen)
  go fuel [(some 0, [r], [])] []

end PM
