/-
  PM/InsertGuard.lean — the guards of the theorems "an approved insertion applies" (Props/C12.lean
  `insertPoint_insert_applies`, `dropPoint_drop_applies_closed`): what `insert_point` / `drop_point`
  (prosemirror/transform/structure.py) do not look at, read at the position `p` they return.  Found by the proofs;
  the unguarded statements are false for model and code alike (counterexamples in Props/C12.lean).
-/
import PM.Structure2
namespace PM

/-- `insert_point` tests `can_replace_with(index, index, type)` — the type only.  The insertion of a node `n` of that
    type at the returned position `p` also needs
    * `p` not strictly inside a text child: there `index` is the index of that text child, the test reads "`n` in
      front of the text", the insertion puts `n` between its two halves (`image? text* image`: approved, refused);
    * the marks of `n` allowed by the parent of `p` (`close` → `check_content`). -/
def insertGuard (S : Schema) (doc : Node) (p : Nat) (n : Node) : Bool :=
  match doc.resolve p with
  | some rp => rp.textOffset == 0 && (S.nodeType (S.tyOf rp.parent)).allowsMarks n.marks
  | none => true

/-- `drop_point`'s first pass tests `can_replace(index, index, content)` (marks included): only the first point above
    remains -/
def dropGuard (doc : Node) (p : Nat) : Bool :=
  match doc.resolve p with
  | some rp => rp.textOffset == 0
  | none => true

/-- the answer of the first pass of `drop_point` ("the content fits as it is"); `some none` = the pass ran out (the
    second pass, which looks for a wrapping of the first node, may still answer) -/
def dropPointPass1 (S : Schema) (doc : Node) (pos : Nat) (sl : Slice) : Option (Option Nat) :=
  match doc.resolve pos with
  | none => none
  | some r =>
    match dropContent sl.openStart sl.content with
    | none => none
    | some content => dropLoop S r content false (r.depth + 1)

end PM
