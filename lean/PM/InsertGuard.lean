/-
  PM/InsertGuard.lean — the guards of the theorems "an approved insertion applies" (Props/C12.lean
  `insertPoint_insert_applies`, `dropPoint_drop_applies_closed`): what `insert_point` / `drop_point`
  (prosemirror/transform/structure.py) do not look at, read at the position `p` they return.  Found by the proofs;
  the unguarded statements are false for model and code alike (counterexamples in Props/C12.lean).
-/
import PM.Structure2
namespace PM

/-- a closed fragment `C` may go in at the resolved position `rp`, as far as the helpers do not look: either `rp` is a
    child boundary, or it is strictly inside a text child — then the helpers' test (`can_replace…(index, index, …)`, with
    `index` the index of that text child) read "`C` in front of the text", while the insertion puts `C` between its two
    halves: the parent must accept `text C text` there, i.e. `parent.can_replace(index + 1, index + 1, C ++ [that child])`
    (true in every `text*` / `inline*` parent; false e.g. for content `image? text* image`), and the cut must not fall
    between the two halves of a surrogate pair (`TextNode.cut` raises there) -/
def insideTextGuardR (S : Schema) (rp : RPos) (C : List Node) : Bool :=
  rp.textOffset == 0 ||
    match rp.parent.kids[rp.index rp.depth]? with
    | some (.text s m) =>
      splitOk s rp.textOffset &&
        S.nodeCanReplace rp.parent (rp.index rp.depth + 1) (rp.index rp.depth + 1) (C ++ [.text s m]) == some true
    | _ => false

def insideTextGuard (S : Schema) (doc : Node) (p : Nat) (C : List Node) : Bool :=
  match doc.resolve p with
  | some rp => insideTextGuardR S rp C
  | none => true

/-- `insert_point` tests `can_replace_with(index, index, type)` — the type only.  The insertion of a node `n` of that
    type at the returned position `p` also needs
    * `insideTextGuard` (above) when `p` is strictly inside a text child;
    * the marks of `n` allowed by the parent of `p` (`close` → `check_content`). -/
def insertGuard (S : Schema) (doc : Node) (p : Nat) (n : Node) : Bool :=
  match doc.resolve p with
  | some rp => insideTextGuardR S rp [n] && (S.nodeType (S.tyOf rp.parent)).allowsMarks n.marks
  | none => true

/-- `drop_point`'s first pass tests `can_replace(index, index, content)` (marks included): only the first point above
    remains -/
def dropGuard (S : Schema) (doc : Node) (p : Nat) (C : List Node) : Bool := insideTextGuard S doc p C

/-- the answer of the first pass of `drop_point` ("the content fits as it is"); `some none` = the pass ran out (the
    second pass, which looks for a wrapping of the first node, may still answer) -/
def dropPointPass1 (S : Schema) (doc : Node) (pos : Nat) (sl : Slice) : Option (Option Nat) :=
  match doc.resolve pos with
  | none => none
  | some r =>
    match dropContent sl.openStart sl.content with
    | none => none
    | some content => dropLoop S r content false (r.depth + 1)

/-- `can_change_type(doc, pos, type)` tests `parent.can_replace_with(index, index + 1, type)` — whether the parent takes
    a node of the new type in place of the node after `pos`.  `set_node_markup(pos, type, attrs, marks)` on a non-leaf node
    also needs (a) the new type to accept the node's children (`type.valid_content(node.content)`: `set_node_markup` tests
    it itself and raises `ValueError` — `can_change_type` does not look at it) and (b) the parent to allow the marks `ms`
    of the new node (automatic when the node's own marks are kept). -/
def changeTypeGuard (S : Schema) (doc : Node) (pos : Nat) (ty : TypeId) (ms : Marks) : Bool :=
  match doc.resolve pos with
  | some r =>
    match r.parent.kids[r.index r.depth]? with
    | some n => S.validContent ty n.kids && (S.nodeType (S.tyOf r.parent)).allowsMarks ms
    | none => false
  | none => true

/-- the marks part of `insertGuard`: the parent of `p` allows the marks of `n` -/
def marksAllowedAt (S : Schema) (doc : Node) (p : Nat) (n : Node) : Bool :=
  match doc.resolve p with
  | some rp => (S.nodeType (S.tyOf rp.parent)).allowsMarks n.marks
  | none => true

/-- `p` is a child boundary of the top node, and the top node is not a textblock (for `insertPoint_insert_marked_top`:
    the Fitter's run is then evaluated exactly) -/
def topBoundary (S : Schema) (doc : Node) (p : Nat) : Bool :=
  match doc.resolve p with
  | some rp => rp.depth == 0 && rp.textOffset == 0 && !S.isTextblock doc
  | none => false

/-- what the Fitter's `place_nodes` makes of a node put in at `p`: `node.mark(parent_type.allowed_marks(node.marks))` —
    the marks the parent of `p` does not allow are dropped -/
def strippedAt (S : Schema) (doc : Node) (p : Nat) (n : Node) : Node :=
  match doc.resolve p with
  | some rp => n.withMarks ((S.nodeType (S.tyOf rp.parent)).allowedMarks n.marks)
  | none => n

end PM
