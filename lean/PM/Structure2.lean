/-
  PM/Structure2.lean — model of the remaining structure helpers of prosemirror/transform/structure.py
  (property C12; `can_cut`, `lift_target`, `can_split` are in PM/Structure.lean):

  * `joinable`, `can_join(doc, pos)`, `join_point(doc, pos, dir)`
  * `insert_point(doc, pos, node_type)`, `drop_point(doc, pos, slice)`
  * `find_wrapping(range, node_type)` with `find_wrapping_outside` / `find_wrapping_inside`
  * `can_change_type(doc, pos, type)`

  Conventions as in PM/Structure.lean: the order of the tests is the order of the code; the outer
  `Option` is "the code raises" (`none`: position out of range, `IndexError`, the `ValueError` of
  `content_match_at` on invalid content, `UnicodeDecodeError` of a text cut inside a surrogate pair,
  `AssertionError`), an inner `Option` is Python's `None`.
-/
import PM.Basic
import PM.Fragment
import PM.Content
import PM.Fill
import PM.Replace
import PM.Resolve
import PM.Structure
namespace PM

/-- `node.is_textblock` (`type.is_block and type.inline_content`) -/
def Schema.isTextblock (S : Schema) (n : Node) : Bool :=
  !(S.nodeType (S.tyOf n)).isInline && (S.nodeType (S.tyOf n)).inlineContent

/-! ### node_before / node_after with their failures -/

/-- `pos_.node_after`: `None` at the end of the parent, the child at a boundary, the rest of the text
    child inside text (`TextNode.cut(d_off)`: raises inside a surrogate pair) -/
def RPos.nodeAfterR (r : RPos) : Option (Option Node) :=
  match r.parent.kids[r.index r.depth]? with
  | none => some none
  | some c =>
    if r.textOffset = 0 then some (some c)
    else
      match c.cut r.textOffset (match c with | .text s _ => s.length | _ => fsize c.kids) with
      | .ok c' => some (some c')
      | .error _ => none

/-- `pos_.node_before`: the first part of the text child inside text (`cut(0, d_off)`), else `None` at
    index 0 and the previous child otherwise -/
def RPos.nodeBeforeR (r : RPos) : Option (Option Node) :=
  if r.textOffset ≠ 0 then
    match r.parent.kids[r.index r.depth]? with
    | none => none
    | some c =>
      match c.cut 0 r.textOffset with
      | .ok c' => some (some c')
      | .error _ => none
  else if r.index r.depth = 0 then some none
  else
    match r.parent.kids[r.index r.depth - 1]? with
    | none => none
    | some c => some (some c)

/-! ### joinable, can_join, join_point -/

/-- `joinable(a, b)`: `a and b and not a.is_leaf` then `a.can_append(b)` (which runs
    `content_match_at(child_count)` on `a` when `b` has content) -/
def Schema.joinable (S : Schema) (a b : Option Node) : Option Bool :=
  match a, b with
  | some a, some b =>
    if a.isLeaf then some false else S.canAppend (S.tyOf a) a.kids (S.tyOf b) b.kids
  | _, _ => some false

/-- `can_join` after `pos_ = doc.resolve(pos)`: `None` when the neighbours are not joinable, else
    `pos_.parent.can_replace(index, index + 1)` -/
def canJoinR (S : Schema) (r : RPos) : Option (Option Bool) :=
  match r.nodeBeforeR, r.nodeAfterR with
  | some a, some b =>
    match S.joinable a b with
    | none => none
    | some false => some none
    | some true =>
      match S.nodeCanReplace r.parent (r.index r.depth) (r.index r.depth + 1) [] with
      | none => none
      | some v => some (some v)
  | _, _ => none

def canJoin (S : Schema) (doc : Node) (pos : Nat) : Option (Option Bool) :=
  match doc.resolve pos with
  | some r => canJoinR S r
  | none => none

/-- what `can_join` does not look at (and `join_point` neither): the join itself goes through `check_join`, which asks
    whether the *types* of the two nodes have compatible content (`after.type.compatible_content(before.type)`: the
    same type, or the two start states share an edge), and needs an element node after the position.
    `joinable` only asked `before.can_append(after)`.  Read at a position where `can_join` approved
    (a child boundary with an element node before it). -/
def joinGuardR (S : Schema) (r : RPos) : Bool :=
  match r.parent.kids[r.index r.depth - 1]?, r.parent.kids[r.index r.depth]? with
  | some a, some (.elem tb _ _ _) => S.compatibleContent tb (S.tyOf a)
  | _, _ => false

def joinGuard (S : Schema) (doc : Node) (pos : Nat) : Bool :=
  match doc.resolve pos with
  | some r => joinGuardR S r
  | none => true

/-- `TextStable` (Props/C01.lean) as a check over the automaton tables: from a state reached by a text child, a
    further text child stays there -/
def textStableC (S : Schema) : Bool :=
  (List.range S.nodes.size).all (fun t => (List.range (S.dfa t).size).all (fun q =>
    match (S.dfa t).matchType q S.textTy with
    | some q1 =>
      (match (S.dfa t).matchType q1 S.textTy with
       | some q2 => q2 == q1
       | none => true)
    | none => true))

/-- which nodes the `join_point` loop looks at at depth `d`: `before`, `after`, and the index the final
    `can_replace` uses; `none` = `node_before` / `node_after` raise -/
def joinSides (r : RPos) (dir : Int) (d : Nat) : Option (Option Node × Option Node × Nat) :=
  if d = r.depth then
    match r.nodeBeforeR, r.nodeAfterR with
    | some a, some b => some (a, b, r.index d)
    | _, _ => none
  else if dir > 0 then
    -- `before = pos_.node(d + 1)`, `after = pos_.node(d).maybe_child(index + 1)`
    some (some (r.node (d + 1)), (r.node d).kids[r.index d + 1]?, r.index d + 1)
  else
    -- `before = pos_.node(d).maybe_child(index - 1)` (`None` for a negative index), `after = pos_.node(d + 1)`
    some ((if r.index d = 0 then none else (r.node d).kids[r.index d - 1]?), some (r.node (d + 1)), r.index d)

/-- `before and not before.is_textblock and joinable(before, after) and node.can_replace(index, index + 1)` -/
def joinTest (S : Schema) (node : Node) (before after : Option Node) (index : Nat) : Option Bool :=
  match before with
  | none => some false
  | some b =>
    if S.isTextblock b then some false
    else
      match S.joinable before after with
      | none => none
      | some false => some false
      | some true => S.nodeCanReplace node index (index + 1) []

/-- the body of the `join_point` loop at depth `d` -/
def joinPointHit (S : Schema) (r : RPos) (dir : Int) (d : Nat) : Option Bool :=
  match joinSides r dir d with
  | none => none
  | some sides => joinTest S (r.node d) sides.1 sides.2.1 sides.2.2

/-- the loop `for d in range(pos_.depth, -1, -1)` of `join_point`, at depth `d` with the candidate `pos` -/
def joinPointLoop (S : Schema) (r : RPos) (dir : Int) : Nat → Nat → Option (Option Nat)
  | 0, pos =>
    match joinPointHit S r dir 0 with
    | none => none
    | some true => some (some pos)
    | some false => some none
  | d + 1, pos =>
    match joinPointHit S r dir (d + 1) with
    | none => none
    | some true => some (some pos)
    | some false =>
      match (if dir < 0 then r.before (d + 1) else r.after (d + 1)) with
      | none => none
      | some p => joinPointLoop S r dir d p

/-- `join_point(doc, pos, dir)` -/
def joinPoint (S : Schema) (doc : Node) (pos : Nat) (dir : Int) : Option (Option Nat) :=
  match doc.resolve pos with
  | some r => joinPointLoop S r dir r.depth pos
  | none => none

/-! ### insert_point -/

/-- the loop taken when the position is at the start of its parent; the argument is `d + 1`.
    `some (some (some p))` = `return p`, `some (some none)` = `return None`, `some none` = the loop ran out -/
def insertLoopStart (S : Schema) (r : RPos) (ty : TypeId) : Nat → Option (Option (Option Nat))
  | 0 => some none
  | d + 1 =>
    let index := r.index d
    match S.nodeCanReplaceWith (r.node d) index index ty with
    | none => none
    | some true =>
      match r.before (d + 1) with
      | none => none
      | some p => some (some (some p))
    | some false => if 0 < index then some (some none) else insertLoopStart S r ty d

/-- the loop taken when the position is at the end of its parent -/
def insertLoopEnd (S : Schema) (r : RPos) (ty : TypeId) : Nat → Option (Option (Option Nat))
  | 0 => some none
  | d + 1 =>
    let index := r.indexAfter d
    match S.nodeCanReplaceWith (r.node d) index index ty with
    | none => none
    | some true =>
      match r.after (d + 1) with
      | none => none
      | some p => some (some (some p))
    | some false =>
      if index < (r.node d).kids.length then some (some none) else insertLoopEnd S r ty d

/-- `insert_point` after `pos_ = doc.resolve(pos)` -/
def insertPointR (S : Schema) (r : RPos) (ty : TypeId) : Option (Option Nat) :=
  match S.nodeCanReplaceWith r.parent (r.index r.depth) (r.index r.depth) ty with
  | none => none
  | some true => some (some r.pos)
  | some false =>
    let first : Option (Option (Option Nat)) :=
      if r.parentOffset = 0 then insertLoopStart S r ty r.depth else some none
    match first with
    | none => none
    | some (some res) => some res
    | some none =>
      if r.parentOffset = fsize r.parent.kids then
        match insertLoopEnd S r ty r.depth with
        | none => none
        | some (some res) => some res
        | some none => some none
      else some none

def insertPoint (S : Schema) (doc : Node) (pos : Nat) (ty : TypeId) : Option (Option Nat) :=
  match doc.resolve pos with
  | some r => insertPointR S r ty
  | none => none

/-! ### drop_point -/

/-- `for _ in range(open_start): content = content.first_child.content` (`assert` on an empty fragment) -/
def dropContent : Nat → List Node → Option (List Node)
  | 0, c => some c
  | n + 1, c =>
    match c with
    | [] => none
    | x :: _ => dropContent n x.kids

/-- `bias` at depth `d`: 0 at the innermost depth, else −1 / +1 by the half of `node(d + 1)` the position
    is in (`pos <= (start + end) / 2`, a float division: `2 * pos ≤ start + end`) -/
def dropBias (r : RPos) (d : Nat) : Int :=
  if d = r.depth then 0
  else if 2 * r.pos ≤ r.start (d + 1) + r.end_ (d + 1) then -1 else 1

/-- the `fits` test of one depth -/
def dropFits (S : Schema) (r : RPos) (content : List Node) (pass2 : Bool) (d : Nat) : Option Bool :=
  let insertPos := r.index d + (if dropBias r d > 0 then 1 else 0)
  let parent := r.node d
  if !pass2 then S.nodeCanReplace parent insertPos insertPos content
  else
    match content with
    | [] => none
    | first :: _ =>
      if parent.kids.length < insertPos then none
      else
        match S.contentMatchAt (S.tyOf parent) parent.kids insertPos with
        | none => none
        | some q =>
          match findWrapping S (S.dfa (S.tyOf parent)) q (S.tyOf first) with
          | some (w :: _) => S.nodeCanReplaceWith parent insertPos insertPos w
          | _ => some false

/-- the loop `for d in range(pos_.depth, -1, -1)` of one pass; the argument is `d + 1`.
    `some (some p)` = `return p`, `some none` = the pass ran out -/
def dropLoop (S : Schema) (r : RPos) (content : List Node) (pass2 : Bool) : Nat → Option (Option Nat)
  | 0 => some none
  | d + 1 =>
    match dropFits S r content pass2 d with
    | none => none
    | some true =>
      if dropBias r d = 0 then some (some r.pos)
      else
        match (if dropBias r d < 0 then r.before (d + 1) else r.after (d + 1)) with
        | none => none
        | some p => some (some p)
    | some false => dropLoop S r content pass2 d

/-- `drop_point` after `pos_ = doc.resolve(pos)` -/
def dropPointR (S : Schema) (r : RPos) (sl : Slice) : Option (Option Nat) :=
  if fsize sl.content = 0 then some (some r.pos)
  else
    match dropContent sl.openStart sl.content with
    | none => none
    | some content =>
      match dropLoop S r content false (r.depth + 1) with
      | none => none
      | some (some p) => some (some p)
      | some none =>
        if sl.openStart = 0 && sl.size ≠ 0 then dropLoop S r content true (r.depth + 1) else some none

def dropPoint (S : Schema) (doc : Node) (pos : Nat) (sl : Slice) : Option (Option Nat) :=
  match doc.resolve pos with
  | some r => dropPointR S r sl
  | none => none

/-! ### find_wrapping(range, node_type) -/

/-- `around[0] if len(around) and around[0] else type` -/
def wrapHead (around : List TypeId) (ty : TypeId) : TypeId :=
  match around with
  | w :: _ => w
  | [] => ty

/-- `inside[-1] if len(inside) else type` -/
def wrapLast (inside : List TypeId) (ty : TypeId) : TypeId :=
  match inside.getLast? with
  | some w => w
  | none => ty

/-- `find_wrapping_outside(range, type)` with `parent = from.node(depth)`, `start_index = from.index(depth)`,
    `end_index = to.index_after(depth)` -/
def findWrappingOutside (S : Schema) (parent : Node) (startIndex endIndex : Nat) (ty : TypeId) :
    Option (Option (List TypeId)) :=
  if parent.kids.length < startIndex then none
  else
    match S.contentMatchAt (S.tyOf parent) parent.kids startIndex with
    | none => none
    | some q =>
      match findWrapping S (S.dfa (S.tyOf parent)) q ty with
      | none => some none
      | some around =>
        match S.nodeCanReplaceWith parent startIndex endIndex (wrapHead around ty) with
        | none => none
        | some true => some (some around)
        | some false => some none

/-- the `while inner_match and i < end_index` loop: `none` = `parent.child(i)` is an `IndexError`,
    `some none` = the automaton died -/
def insideLoop (S : Schema) (d : Dfa) : List Node → Nat → Nat → Option (Option Nat)
  | _, 0, q => some (some q)
  | [], _ + 1, _ => none
  | c :: rest, n + 1, q =>
    match d.matchType q (S.tyOf c) with
    | none => some none
    | some q' => insideLoop S d rest n q'

/-- `find_wrapping_inside(range, type)` -/
def findWrappingInside (S : Schema) (parent : Node) (startIndex endIndex : Nat) (ty : TypeId) :
    Option (Option (List TypeId)) :=
  match parent.kids[startIndex]? with
  | none => none
  | some inner =>
    match findWrapping S (S.dfa ty) 0 (S.tyOf inner) with
    | none => some none
    | some inside =>
      match insideLoop S (S.dfa (wrapLast inside ty)) (parent.kids.drop startIndex) (endIndex - startIndex) 0 with
      | none => none
      | some none => some none
      | some (some q) => if (S.dfa (wrapLast inside ty)).validEnd q then some (some inside) else some none

/-- `find_wrapping(NodeRange(from, to, depth), node_type)`: the chain of types, `node_type` itself included
    (the attributes given for it are passed through by the caller) -/
def findWrappingR (S : Schema) (f t : RPos) (depth : Nat) (ty : TypeId) : Option (Option (List TypeId)) :=
  if f.depth < depth || t.depth < depth then none
  else
    let parent := f.node depth
    let startIndex := f.index depth
    let endIndex := t.indexAfter depth
    match findWrappingOutside S parent startIndex endIndex ty with
    | none => none
    | some none => some none
    | some (some around) =>
      match findWrappingInside S parent startIndex endIndex ty with
      | none => none
      | some none => some none
      | some (some inner) => some (some (around ++ [ty] ++ inner))

def findWrappingRange (S : Schema) (doc : Node) (a b depth : Nat) (ty : TypeId) :
    Option (Option (List TypeId)) :=
  match doc.resolve a, doc.resolve b with
  | some f, some t => findWrappingR S f t depth ty
  | _, _ => none

/-! ### can_change_type -/

def canChangeType (S : Schema) (doc : Node) (pos : Nat) (ty : TypeId) : Option Bool :=
  match doc.resolve pos with
  | some r => S.nodeCanReplaceWith r.parent (r.index r.depth) (r.index r.depth + 1) ty
  | none => none

end PM
