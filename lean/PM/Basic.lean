/-
  PM/Basic.lean — data of the document model: marks, nodes, tokens, sizes, schema tables.

  * Text is a list of UTF-16 code units (`Nat`), because every position-counting interface of the
    library counts UTF-16 units.  A Python `str` is a *pair-aligned* unit list (every high surrogate
    is followed by a low one); cutting between the two halves is what Python cannot represent
    (`TextNode.cut` raises `UnicodeDecodeError`), see `PM/Fragment.lean: cutText`.
  * Leaf-ness is a property of the node type in the code (`content_match == ContentMatch.empty`);
    the codec puts it into the constructor so that sizes/tokens do not need the schema.
  * Attributes are an association list `name ↦ canonical JSON text` in declaration order.
-/
namespace PM

abbrev TypeId := Nat
abbrev MarkTypeId := Nat
abbrev Attrs := List (String × String)

structure Mark where
  ty    : MarkTypeId
  attrs : Attrs
deriving DecidableEq, Repr, Inhabited

abbrev Marks := List Mark

inductive Node where
  | text (s : List Nat) (marks : Marks)
  | leaf (ty : TypeId) (attrs : Attrs) (marks : Marks)
  | elem (ty : TypeId) (attrs : Attrs) (marks : Marks) (kids : List Node)
deriving Repr, Inhabited

abbrev Fragment := List Node

mutual
def Node.beq : Node → Node → Bool
  | .text s m, .text s' m' => s == s' && m == m'
  | .leaf t a m, .leaf t' a' m' => t == t' && a == a' && m == m'
  | .elem t a m k, .elem t' a' m' k' => t == t' && a == a' && m == m' && Node.beqList k k'
  | _, _ => false
def Node.beqList : List Node → List Node → Bool
  | [], [] => true
  | a :: as, b :: bs => Node.beq a b && Node.beqList as bs
  | _, _ => false
end

mutual
theorem Node.beq_iff : ∀ a b : Node, Node.beq a b = true ↔ a = b
  | .text s m, .text s' m' => by simp [Node.beq]
  | .leaf t a m, .leaf t' a' m' => by simp [Node.beq, and_assoc]
  | .elem t a m k, .elem t' a' m' k' => by simp [Node.beq, Node.beqList_iff k k', and_assoc]
  | .text .., .leaf .. => by simp [Node.beq]
  | .text .., .elem .. => by simp [Node.beq]
  | .leaf .., .text .. => by simp [Node.beq]
  | .leaf .., .elem .. => by simp [Node.beq]
  | .elem .., .text .. => by simp [Node.beq]
  | .elem .., .leaf .. => by simp [Node.beq]
theorem Node.beqList_iff : ∀ a b : List Node, Node.beqList a b = true ↔ a = b
  | [], [] => by simp [Node.beqList]
  | a :: as, b :: bs => by simp [Node.beqList, Node.beq_iff a b, Node.beqList_iff as bs]
  | [], _ :: _ => by simp [Node.beqList]
  | _ :: _, [] => by simp [Node.beqList]
end

instance : DecidableEq Node := fun a b =>
  if h : Node.beq a b then isTrue ((Node.beq_iff a b).mp h)
  else isFalse (fun e => h ((Node.beq_iff a b).mpr e))

/-! ### Accessors -/

def Node.marks : Node → Marks
  | .text _ m => m
  | .leaf _ _ m => m
  | .elem _ _ m _ => m

def Node.kids : Node → List Node
  | .elem _ _ _ k => k
  | _ => []

def Node.isText : Node → Bool
  | .text .. => true
  | _ => false

/-- the code's `is_leaf` (`content_match == ContentMatch.empty`): true for leaf nodes *and* text nodes -/
def Node.isLeaf : Node → Bool
  | .elem .. => false
  | _ => true

/-- node type id; text nodes use the schema's text type id, passed by the caller where needed -/
def Node.tyOr (textTy : TypeId) : Node → TypeId
  | .text .. => textTy
  | .leaf t _ _ => t
  | .elem t _ _ _ => t

def Node.attrs : Node → Attrs
  | .text .. => []
  | .leaf _ a _ => a
  | .elem _ a _ _ => a

def Node.withMarks (m : Marks) : Node → Node
  | .text s _ => .text s m
  | .leaf t a _ => .leaf t a m
  | .elem t a _ k => .elem t a m k

/-- `Node.copy(content)` for element nodes -/
def Node.withKids (k : List Node) : Node → Node
  | .elem t a m _ => .elem t a m k
  | n => n

/-- `same_markup` -/
def Node.sameMarkup : Node → Node → Bool
  | .text _ m, .text _ m' => m == m'
  | .leaf t a m, .leaf t' a' m' => t == t' && a == a' && m == m'
  | .elem t a m _, .elem t' a' m' _ => t == t' && a == a' && m == m'
  | _, _ => false

/-! ### Sizes and the flat token sequence -/

mutual
def Node.size : Node → Nat
  | .text s _ => s.length
  | .leaf .. => 1
  | .elem _ _ _ kids => 2 + fsize kids
def fsize : List Node → Nat
  | [] => 0
  | n :: ns => n.size + fsize ns
end

/-- Tokens. The close token is untyped (a rebuilt node takes the left side's markup and only a bare
    close from the right side, so this is the view in which `replace` is literally a splice). -/
inductive Tok where
  | op   (ty : TypeId) (attrs : Attrs) (marks : Marks)
  | cl
  | leaf (ty : TypeId) (attrs : Attrs) (marks : Marks)
  | unit (cu : Nat) (marks : Marks)
deriving DecidableEq, Repr, Inhabited

mutual
def Node.toks : Node → List Tok
  | .text s m => s.map (Tok.unit · m)
  | .leaf t a m => [Tok.leaf t a m]
  | .elem t a m kids => Tok.op t a m :: (ftoks kids ++ [Tok.cl])
def ftoks : List Node → List Tok
  | [] => []
  | n :: ns => n.toks ++ ftoks ns
end

/-- Marked-up token view: close tokens carry their node's markup too (used by C20, C04). -/
inductive MTok where
  | op   (ty : TypeId) (attrs : Attrs) (marks : Marks)
  | cl   (ty : TypeId) (attrs : Attrs) (marks : Marks)
  | leaf (ty : TypeId) (attrs : Attrs) (marks : Marks)
  | unit (cu : Nat) (marks : Marks)
deriving DecidableEq, Repr, Inhabited

mutual
def Node.mtoks : Node → List MTok
  | .text s m => s.map (MTok.unit · m)
  | .leaf t a m => [MTok.leaf t a m]
  | .elem t a m kids => MTok.op t a m :: (fmtoks kids ++ [MTok.cl t a m])
def fmtoks : List Node → List MTok
  | [] => []
  | n :: ns => n.mtoks ++ fmtoks ns
end

/-! ### Normal form: no empty text, no two adjacent text siblings with equal marks -/

def adjOk : Node → Node → Bool
  | .text _ m, .text _ m' => m != m'
  | _, _ => true

def chainOk : List Node → Bool
  | a :: b :: rest => adjOk a b && chainOk (b :: rest)
  | _ => true

mutual
def Node.norm : Node → Bool
  | .text s _ => !s.isEmpty
  | .leaf .. => true
  | .elem _ _ _ kids => fnormKids kids && chainOk kids
def fnormKids : List Node → Bool
  | [] => true
  | n :: ns => n.norm && fnormKids ns
end

/-- a fragment (child list) is in normal form -/
def fnorm (l : List Node) : Bool := fnormKids l && chainOk l

/-! ### Outcomes -/

inductive Err where
  | failed      -- ReplaceError / StepResult.fail / TransformError
  | valueError  -- any other ValueError-family exception (incl. UnicodeDecodeError)
  | internal    -- IndexError / AttributeError / AssertionError / TypeError
deriving DecidableEq, Repr, Inhabited

abbrev Res := Except Err

/-! ### Schema tables (compiled form, as `Schema.__init__` leaves it; dumped by the harness) -/

structure DfaState where
  validEnd : Bool
  edges    : List (TypeId × Nat)     -- in the order of `ContentMatch.next`
deriving Repr, Inhabited, DecidableEq

structure AttrDecl where
  name       : String
  hasDefault : Bool
  default    : String       -- canonical JSON text ("null" if none)
deriving Repr, Inhabited, DecidableEq

structure NodeType where
  name          : String
  isText        : Bool
  isInline      : Bool
  isLeaf        : Bool
  isAtom        : Bool
  inlineContent : Bool
  isolating     : Bool
  defining      : Bool
  code          : Bool
  dfa           : Array DfaState      -- state 0 is the start state
  markSet       : Option (List MarkTypeId)   -- `none` = all marks allowed
  attrs         : List AttrDecl
  -- `bool(spec.get("definingAsContext"))` / `bool(spec.get("definingForContent"))` (read by
  -- `Transform.replace_range` only; last with defaults so that older record literals stay valid)
  definingAsContext  : Bool := false
  definingForContent : Bool := false
deriving Repr, Inhabited

structure MarkType where
  name      : String
  excluded  : List MarkTypeId
  inclusive : Bool          -- spec "inclusive" is not False
  attrs     : List AttrDecl
deriving Repr, Inhabited

structure Schema where
  nodes  : Array NodeType
  marks  : Array MarkType          -- index = rank
  top    : TypeId
  textTy : TypeId
deriving Repr, Inhabited

def Schema.nodeType (S : Schema) (t : TypeId) : NodeType := S.nodes[t]!
def Schema.markType (S : Schema) (t : MarkTypeId) : MarkType := S.marks[t]!

def Schema.tyOf (S : Schema) (n : Node) : TypeId := n.tyOr S.textTy

end PM
