/-
  PM/ResolveExtra.lean — accessors of `ResolvedPos` / `NodeRange` added after the first model
  (`marks_across`, the index accessors of `NodeRange`), kept apart from PM/Resolve.lean.
-/
import PM.Basic
import PM.Resolve
namespace PM
namespace RPos

/-- `self.marks_across(end)`:
    ```
    after = self.parent.maybe_child(self.index())
    if not after or not after.is_inline: return None
    marks = after.marks; next = end.parent.maybe_child(end.index())
    … drop every mark whose type is not inclusive unless `next` carries it too
    ```
    (`maybe_child` is `None` outside `0 ≤ i < child_count`; the removal loop of the code deletes all
    marks equal to the offending one, which for a predicate on the mark alone is the same filter). -/
def marksAcross (S : Schema) (r e : RPos) : Option Marks :=
  match r.parent.kids[r.index r.depth]? with
  | none => none
  | some after =>
    if !(S.nodeType (S.tyOf after)).isInline then none
    else some (dropNonInclusive S after.marks (e.parent.kids[e.index e.depth]?))

end RPos

/-- `doc.resolve(f).marks_across(doc.resolve(t))`; `.error` = a position does not resolve -/
def marksAcross (S : Schema) (doc : Node) (f t : Nat) : Res (Option Marks) :=
  match doc.resolve f, doc.resolve t with
  | some rf, some rt => .ok (rf.marksAcross S rt)
  | _, _ => .error .valueError

/-- `NodeRange(from, to, depth)`: `start`, `end`, `start_index`, `end_index` and the child count of
    `parent` (`from.before(depth+1)`, `to.after(depth+1)`, `from.index(depth)`, `to.index_after(depth)`).
    `none` where the code raises (`before`/`after` at depth 0 or beyond the path). -/
def nodeRangeInfo (rf rt : RPos) (depth : Nat) : Option (Nat × Nat × Nat × Nat × Nat) :=
  match rf.before (depth + 1), rt.after (depth + 1) with
  | some s, some e => some (s, e, rf.index depth, rt.indexAfter depth, (rf.node depth).kids.length)
  | _, _ => none

end PM
