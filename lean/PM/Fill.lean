/-
  PM/Fill.lean — model of content filling and wrapper search (content.py: ContentMatch.fill_before,
  find_wrapping / compute_wrapping; schema.py: NodeType.create_and_fill) and the checkable
  predicates the relational correspondence evaluates on the real code's answers.
-/
import PM.Basic
import PM.Content
namespace PM

/-! ### fill_before: depth-first search over match states with a global seen-set -/

mutual
/-- `search(match, types)` of `fill_before`; returns the answer and the updated seen-set.
    `fuel` bounds the recursion depth (each recursive call marks a new state as seen, so the number
    of states suffices). -/
def fillSearch (d : Dfa) (gen : TypeId → Bool) (after : List TypeId) (toEnd : Bool) :
    (fuel : Nat) → (q : Nat) → (types : List TypeId) → (seen : List Nat) → Option (List TypeId) × List Nat
  | 0, _, _, seen => (none, seen)
  | fuel + 1, q, types, seen =>
    let finished := match d.run q after with
      | some f => !toEnd || d.validEnd f
      | none => false
    if finished then (some types, seen)
    else fillEdges d gen after toEnd fuel (d.edgesOf q) types seen
/-- the `for i in match.next` loop -/
def fillEdges (d : Dfa) (gen : TypeId → Bool) (after : List TypeId) (toEnd : Bool) :
    (fuel : Nat) → (edges : List (TypeId × Nat)) → (types : List TypeId) → (seen : List Nat) →
      Option (List TypeId) × List Nat
  | _, [], _, seen => (none, seen)
  | fuel, (t, nxt) :: rest, types, seen =>
    if gen t && !seen.contains nxt then
      match fillSearch d gen after toEnd fuel nxt (types ++ [t]) (nxt :: seen) with
      | (some r, seen') => (some r, seen')
      | (none, seen') => fillEdges d gen after toEnd fuel rest types seen'
    else fillEdges d gen after toEnd fuel rest types seen
end

/-- `ContentMatch.fill_before(after, to_end, start_index)` as a list of filler types
    (`after` = the types of `after[start_index:]`) -/
def fillBefore (d : Dfa) (gen : TypeId → Bool) (q : Nat) (after : List TypeId) (toEnd : Bool) : Option (List TypeId) :=
  (fillSearch d gen after toEnd (d.size + 1) q [] [q]).1

/-- **what a correct filling is**: only generatable types, and the combined sequence matches from
    `q` (up to a valid end when asked) -/
def isFill (d : Dfa) (gen : TypeId → Bool) (q : Nat) (after : List TypeId) (toEnd : Bool) (fill : List TypeId) : Bool :=
  fill.all gen &&
  match d.run q (fill ++ after) with
  | some f => !toEnd || d.validEnd f
  | none => false

/-! ### find_wrapping: breadth-first search over wrapper types -/

structure Active where
  dfaOf : TypeId        -- whose content automaton (the current wrapper); unused for the root
  state : Nat           -- match state inside it
  chain : List TypeId   -- wrappers chosen so far, outermost first
  root  : Bool
deriving Repr, Inhabited

/-- can a node of type `t` be generated as a wrapper: not a leaf, no required attributes -/
def Schema.wrapOk (S : Schema) (t : TypeId) : Bool :=
  !(S.nodeType t).isLeaf && !(S.nodeType t).attrs.any (fun a => !a.hasDefault)

/-- the automaton an active item is positioned in -/
def Active.dfa (S : Schema) (rootDfa : Dfa) (a : Active) : Dfa :=
  if a.root then rootDfa else S.dfa a.dfaOf

/-- the `for i in range(len(match.next))` loop of `compute_wrapping` for one popped item: every edge
    (in the order of `match.next`) whose type is a possible wrapper, not yet seen, and — unless the
    item is the root — whose target state is a valid end, appends a new active item and marks the
    type as seen.  Returns the appended items (in order) and the updated seen-set. -/
def wrapExpand (S : Schema) (d : Dfa) (cur : Active) :
    (edges : List (TypeId × Nat)) → (seen : List TypeId) → List Active × List TypeId
  | [], seen => ([], seen)
  | e :: es, seen =>
    if S.wrapOk e.1 && !seen.contains e.1 && (cur.root || d.validEnd e.2) then
      let r := wrapExpand S d cur es (e.1 :: seen)
      ({ dfaOf := e.1, state := 0, chain := cur.chain ++ [e.1], root := false } :: r.1, r.2)
    else wrapExpand S d cur es seen

/-- `compute_wrapping`: queue of active items (`active.pop(0)` / `active.append`), a seen-set of
    wrapper types; `rootDfa`/`q` is the match position asked about.  `fuel` bounds the number of
    popped items; `Props/C15.lean: findWrapping_complete` shows that the amount `findWrapping`
    passes is never exhausted on a well-formed schema (every type is queued at most once). -/
def wrapSearch (S : Schema) (rootDfa : Dfa) (target : TypeId) :
    (fuel : Nat) → (queue : List Active) → (seen : List TypeId) → Option (List TypeId)
  | 0, _, _ => none
  | _ + 1, [], _ => none
  | fuel + 1, cur :: queue, seen =>
    let d := cur.dfa S rootDfa
    if (d.matchType cur.state target).isSome then some cur.chain
    else
      let step := wrapExpand S d cur (d.edgesOf cur.state) seen
      wrapSearch S rootDfa target fuel (queue ++ step.1) step.2

/-- `ContentMatch.find_wrapping(target)` at state `q` of automaton `d` -/
def findWrapping (S : Schema) (d : Dfa) (q : Nat) (target : TypeId) : Option (List TypeId) :=
  wrapSearch S d target (S.nodes.size * S.nodes.size + S.nodes.size + 2)
    [{ dfaOf := 0, state := q, chain := [], root := true }] []

/-- each wrapper may hold the next as its only child (to a valid end), the innermost accepts the
    target as first child -/
def chainInner (S : Schema) (target : TypeId) : List TypeId → Bool
  | [] => true
  | [w] => ((S.dfa w).matchType 0 target).isSome
  | w :: w' :: rest =>
    (match (S.dfa w).matchType 0 w' with
     | some q => (S.dfa w).validEnd q
     | none => false) && chainInner S target (w' :: rest)

/-- **what a correct wrapper chain is** -/
def isWrapChain (S : Schema) (d : Dfa) (q : Nat) (target : TypeId) (chain : List TypeId) : Bool :=
  chain.all S.wrapOk &&
  (match chain with
   | [] => (d.matchType q target).isSome
   | w :: _ => (d.matchType q w).isSome && chainInner S target chain)

end PM
