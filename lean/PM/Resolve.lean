/-
  PM/Resolve.lean — model of prosemirror/model/resolvedpos.py (ResolvedPos.resolve and accessors)
  and of the position-based queries of node.py / fragment.py (node_at, child_after, child_before,
  nodes_between, text_between, range_has_mark).
-/
import PM.Basic
import PM.Marks
import PM.Fragment
namespace PM

/-- one level of a resolved path: the node at that depth, the child index the position points
    into/at, and the absolute position of the start of that child (`path[3d+2]`). -/
structure PE where
  node  : Node
  index : Nat
  pos   : Nat
deriving Repr, Inhabited

abbrev Path := List PE

/-- `ResolvedPos.resolve` below `node` whose content starts at absolute position `start`;
    `rest` is the unscanned tail of `node`'s children, `cur` its offset in the content,
    `po` the remaining offset relative to the head of `rest`. `none` = out of range. -/
def resolveScan (node : Node) (start : Nat) : (rest : List Node) → (idx cur po : Nat) → Option Path
  | [], idx, cur, po => if po = 0 then some [⟨node, idx, start + cur⟩] else none
  | n :: ns, idx, cur, po =>
    if po = 0 then some [⟨node, idx, start + cur⟩]
    else if n.size ≤ po then resolveScan node start ns (idx + 1) (cur + n.size) (po - n.size)
    else match n with
      | .elem _ _ _ kids =>
        (resolveScan n (start + cur + 1) kids 0 0 (po - 1)).map (⟨node, idx, start + cur⟩ :: ·)
      | _ => some [⟨node, idx, start + cur⟩]

structure RPos where
  pos  : Nat
  path : Path
deriving Repr, Inhabited

/-- `Node.resolve(pos)`; `none` = "Position out of range" (ValueError) -/
def Node.resolve (doc : Node) (pos : Nat) : Option RPos :=
  if pos ≤ fsize doc.kids then (resolveScan doc 0 doc.kids 0 0 pos).map (⟨pos, ·⟩) else none

namespace RPos

def depth (r : RPos) : Nat := r.path.length - 1
def entry (r : RPos) (d : Nat) : PE := r.path[d]!
def node (r : RPos) (d : Nat) : Node := (r.entry d).node
def index (r : RPos) (d : Nat) : Nat := (r.entry d).index
def parent (r : RPos) : Node := r.node r.depth
/-- `start(depth)` -/
def start (r : RPos) (d : Nat) : Nat := if d = 0 then 0 else (r.entry (d - 1)).pos + 1
def end_ (r : RPos) (d : Nat) : Nat := r.start d + fsize (r.node d).kids
def parentOffset (r : RPos) : Nat := r.pos - r.start r.depth
def textOffset (r : RPos) : Nat := r.pos - (r.entry r.depth).pos
def indexAfter (r : RPos) (d : Nat) : Nat :=
  r.index d + (if d = r.depth && r.textOffset = 0 then 0 else 1)
/-- `before(depth)`, `1 ≤ depth ≤ self.depth + 1`; `none` = ValueError (depth 0) or out of range -/
def before (r : RPos) (d : Nat) : Option Nat :=
  if d = 0 then none
  else if d = r.depth + 1 then some r.pos
  else if d ≤ r.depth then some (r.entry (d - 1)).pos else none
def after (r : RPos) (d : Nat) : Option Nat :=
  if d = 0 then none
  else if d = r.depth + 1 then some r.pos
  else if d ≤ r.depth then some ((r.entry (d - 1)).pos + (r.node d).size) else none

/-- `node_after`; text is cut at the offset (`none` also when the cut is inside a surrogate pair) -/
def nodeAfter (r : RPos) : Option Node :=
  match r.parent.kids[r.index r.depth]? with
  | none => none
  | some c =>
    if r.textOffset = 0 then some c
    else match c with
      | .text s m => if splitOk s r.textOffset then some (.text (s.drop r.textOffset) m) else none
      | _ => some c

def nodeBefore (r : RPos) : Option Node :=
  if r.textOffset ≠ 0 then
    match r.parent.kids[r.index r.depth]? with
    | some (.text s m) => if splitOk s r.textOffset then some (.text (s.take r.textOffset) m) else none
    | _ => none
  else if r.index r.depth = 0 then none
  else r.parent.kids[r.index r.depth - 1]?

/-- the loop shared by `marks()` and `marks_across`: drop non-inclusive marks not continued in `other` -/
def dropNonInclusive (S : Schema) (marks : Marks) (other : Option Node) : Marks :=
  marks.filter (fun m =>
    !(!(S.markType m.ty).inclusive &&
      (match other with
       | none => true
       | some o => !(m.isInSet o.marks))))

/-- `marks()` — documented behaviour: at a boundary take the node before (if any, else the node
    after) and drop its non-inclusive marks unless the node on the other side also has them. -/
def marks (S : Schema) (r : RPos) : Marks :=
  let parent := r.parent
  let index := r.index r.depth
  if fsize parent.kids = 0 then []
  else if r.textOffset ≠ 0 then
    match parent.kids[index]? with
    | some c => c.marks
    | none => []
  else
    let before := if index = 0 then none else parent.kids[index - 1]?
    let after := parent.kids[index]?
    match before with
    | some main => dropNonInclusive S main.marks after
    | none =>
      match after with
      | some main => dropNonInclusive S main.marks none
      | none => []

/-- `shared_depth(pos)` -/
def sharedDepth (r : RPos) (pos : Nat) : Nat :=
  go r pos r.depth
where
  go (r : RPos) (pos : Nat) : Nat → Nat
    | 0 => 0
    | d + 1 => if r.start (d + 1) ≤ pos && pos ≤ r.end_ (d + 1) then d + 1 else go r pos d

def posAtIndex (r : RPos) (index d : Nat) : Nat :=
  r.start d + fsize ((r.node d).kids.take index)

end RPos

namespace RPos

/-- the `while d >= 0` loop of `block_range`, started at depth `d`: the largest `d' ≤ d` with
    `other ≤ self.end(d')` (and `pred(self.node(d'))`); `none` = the loop runs out (Python returns None) -/
def blockDepth (r : RPos) (other : Nat) (pred : Node → Bool) : Nat → Option Nat
  | 0 => if other ≤ r.end_ 0 && pred (r.node 0) then some 0 else none
  | d + 1 => if other ≤ r.end_ (d + 1) && pred (r.node (d + 1)) then some (d + 1)
             else blockDepth r other pred d

/-- `self.block_range(other, pred)` followed by reading `depth`, `start`, `end` of the `NodeRange`
    (`start = from.before(depth + 1)`, `end = to.after(depth + 1)`).
    `pred = none` is Python's `pred=None`; the swapped call `other.block_range(self)` drops `pred`.
    `.ok none` = Python returns `None`; `.error .internal` = `before`/`after` would index past the path. -/
def blockRange (S : Schema) (r o : RPos) (pred : Option (Node → Bool)) : Res (Option (Nat × Nat × Nat)) :=
  let a := if o.pos < r.pos then o else r
  let b := if o.pos < r.pos then r else o
  let pr : Node → Bool := if o.pos < r.pos then (fun _ => true) else pred.getD (fun _ => true)
  -- `d = self.depth - (self.parent.inline_content or (1 if self.pos == other.pos else 0))`
  let shrink := (S.nodeType (S.tyOf a.parent)).inlineContent || a.pos == b.pos
  if shrink && a.depth == 0 then .ok none       -- d = -1: the loop body never runs
  else
    match a.blockDepth b.pos pr (a.depth - (if shrink then 1 else 0)) with
    | none => .ok none
    | some d =>
      match a.before (d + 1), b.after (d + 1) with
      | some s, some e => .ok (some (d, s, e))
      | _, _ => .error .internal

end RPos

/-- `doc.resolve(f).block_range(doc.resolve(t))` as `(depth, start, end)`;
    `.error .valueError` = a position does not resolve, `.ok none` = Python returns `None` -/
def blockRange (S : Schema) (doc : Node) (f t : Nat) : Res (Option (Nat × Nat × Nat)) :=
  match doc.resolve f, doc.resolve t with
  | some r, some o => r.blockRange S o none
  | _, _ => .error .valueError

/-! ### node_at, child_after, child_before -/

/-- `Node.node_at(pos)` below a child list; `.error` = ValueError (out of range) -/
def nodeAtKids : List Node → Nat → Res (Option Node)
  | [], pos => if pos = 0 then .ok none else .error .valueError
  | n :: ns, pos =>
    if pos = 0 then .ok (some n)
    else if n.size ≤ pos then nodeAtKids ns (pos - n.size)
    else match n with
      | .elem _ _ _ kids => nodeAtKids kids (pos - 1)
      | _ => .ok (some n)

def Node.nodeAt (doc : Node) (pos : Nat) : Res (Option Node) := nodeAtKids doc.kids pos

/-- `child_after(pos)`: `(node?, index, offset)` -/
def childAfter (kids : List Node) (pos : Nat) : Option (Option Node × Nat × Nat) :=
  (findIndex kids pos).map (fun (i, off) => (kids[i]?, i, off))

/-- `child_before(pos)` -/
def childBefore (kids : List Node) (pos : Nat) : Option (Option Node × Nat × Nat) :=
  if pos = 0 then some (none, 0, 0)
  else match findIndex kids pos with
    | none => none
    | some (i, off) =>
      if off < pos then some (kids[i]?, i, off)
      else match kids[i - 1]? with
        | some n => some (some n, i - 1, off - n.size)
        | none => none

/-! ### nodes_between: the visited `(node, absolute pos, index)` triples in order (callback always
    continues), and text_between -/

mutual
def nodesBetweenNode : Node → Nat → Nat → Nat → List (Node × Nat × Nat)
  | .elem _ _ _ kids, from_, to, start => nodesBetween kids from_ to start 0
  | _, _, _, _ => []
/-- `Fragment.nodes_between(from, to, f, node_start)`; offsets relative to the head of the list -/
def nodesBetween : List Node → Nat → Nat → Nat → Nat → List (Node × Nat × Nat)
  | [], _, _, _, _ => []
  | n :: ns, from_, to, start, i =>
    if to = 0 then []
    else
      let sz := n.size
      let here :=
        if from_ < sz then
          (n, start, i) ::
            (match n with
             | .elem _ _ _ kids =>
               if fsize kids = 0 then []
               else nodesBetween kids (from_ - 1) (min (fsize kids) (to - 1)) (start + 1) 0
             | _ => [])
        else []
      here ++ nodesBetween ns (from_ - sz) (to - sz) (start + sz) (i + 1)
end

/-- `text_between(from, to)` with empty separator and no leaf text: the text units in the range -/
def textBetween : List Node → Nat → Nat → List Nat
  | [], _, _ => []
  | n :: ns, from_, to =>
    if to = 0 then []
    else
      let sz := n.size
      let here :=
        if from_ < sz then
          match n with
          | .text s _ => (s.take to).drop from_
          | .elem _ _ _ kids => textBetween kids (from_ - 1) (min (fsize kids) (to - 1))
          | .leaf .. => []
        else []
      here ++ textBetween ns (from_ - sz) (to - sz)

/-! ### text_between with block separator and leaf text -/

/-- the callback of `Fragment.text_between` on one visited node; the state is
    `(text so far, separated)`; `from_`/`to` are the arguments of the outer call and `pos` the
    absolute position reported by `nodes_between` -/
def tbStep (S : Schema) (from_ to : Nat) (sep : List Nat) (leafText : Node → List Nat) :
    List Nat × Bool → Node × Nat × Nat → List Nat × Bool
  | (txt, separated), (n, pos, _) =>
    match n with
    | .text s _ => (txt ++ (s.take (to - pos)).drop (max from_ pos - pos), sep.isEmpty)
    | .leaf .. => (txt ++ leafText n, sep.isEmpty)
    | .elem ty _ _ _ =>
      if !separated && !(S.nodeType ty).isInline then (txt ++ sep, true) else (txt, separated)

/-- `Fragment.text_between(from, to, block_separator, leaf_text)` on UTF-16 units: the callback
    run over the nodes `nodes_between(from, to)` visits, in order.  `leafText n = []` stands for
    "no leaf text" (`spec.leafText` is not modelled).  Like `textBetween`, this is the unit-level
    result; the failure modes of the code are in `textBetweenSepRes`. -/
def textBetweenSep (S : Schema) (kids : List Node) (from_ to : Nat) (sep : List Nat)
    (leafText : Node → List Nat) : List Nat :=
  ((nodesBetween kids from_ to 0 0).foldl (tbStep S from_ to sep leafText) ([], true)).1

/-- `bytes.decode("utf-16-le")` succeeds: every high surrogate is followed by a low one and no
    low surrogate stands alone -/
def utf16Ok : List Nat → Bool
  | [] => true
  | [a] => !isHigh a && !isLow a
  | a :: b :: r => if isHigh a then isLow b && utf16Ok r else !isLow a && utf16Ok (b :: r)

/-- `text_between` with the failures of the code: a visited text node whose slice is cut inside a
    surrogate pair raises `UnicodeDecodeError` (`.valueError`); `to` past the end of the content
    ends in `IndexError` (`.internal`) after all nodes were visited -/
def textBetweenSepRes (S : Schema) (kids : List Node) (from_ to : Nat) (sep : List Nat)
    (leafText : Node → List Nat) : Res (List Nat) :=
  if (nodesBetween kids from_ to 0 0).any (fun x =>
      match x.1 with
      | .text s _ => !utf16Ok ((s.take (to - x.2.1)).drop (max from_ x.2.1 - x.2.1))
      | _ => false) then .error .valueError
  else if fsize kids < to then .error .internal
  else .ok (textBetweenSep S kids from_ to sep leafText)

/-- `range_has_mark(from, to, mark)`: some visited node carries the mark -/
def rangeHasMark (kids : List Node) (from_ to : Nat) (m : Mark) : Bool :=
  to > from_ && (nodesBetween kids from_ to 0 0).any (fun x => m.isInSet x.1.marks)

def rangeHasMarkType (kids : List Node) (from_ to : Nat) (t : MarkTypeId) : Bool :=
  to > from_ && (nodesBetween kids from_ to 0 0).any (fun x => (markTypeIsInSet t x.1.marks).isSome)

end PM
