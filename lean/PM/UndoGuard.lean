/-
  PM/UndoGuard.lean — the decidable guard under which the inverse of a successfully applied replace
  step applies (C04, `replace_undo`): `compatible_content` is symmetric but not transitive, and a
  replace whose slice is a single node open on both sides merges `from`'s and `to`'s ancestors
  *through* that node after checking only `to ~ slice node` and `slice node ~ from`; the inverse has
  to re-split the merged node and checks `from ~ to`.
  These are specification predicates over the model's data (not models of library functions); the
  harness ties `sidesCompatible` to the same condition computed with `ResolvedPos.node(d)` and
  `NodeType.compatible_content` of the real code.
-/
import PM.Basic
import PM.Content
import PM.Replace
namespace PM

/-- number of nested levels at which the slice content is a single element child that is open on
    both sides (the node the step merges `from`'s and `to`'s ancestors *through*) -/
def singleDepth : List Node → Nat → Nat → Nat
  | [.elem _ _ _ kids], a + 1, b + 1 => 1 + singleDepth kids a b
  | _, _, _ => 0

/-- `n` levels down from here the ancestor of `f` in `L` and the ancestor of `t` in `R` have
    join-compatible types -/
def ancCompat (S : Schema) : Nat → List Node → Nat → List Node → Nat → Bool
  | 0, _, _, _, _ => true
  | n + 1, L, f, R, t =>
    match splitRight L f, splitRight R t with
    | some (.deep (.elem tyL _ _ kL) iL _), some (.deep (.elem tyR _ _ kR) iR _) =>
      S.compatibleContent tyL tyR && ancCompat S n kL iL kR iR
    | _, _ => true

/-- skip `e` levels, then `ancCompat` for `n` levels -/
def bridgeCompat (S : Schema) : Nat → Nat → List Node → Nat → List Node → Nat → Bool
  | 0, n, L, f, R, t => ancCompat S n L f R t
  | e + 1, n, L, f, R, t =>
    match splitRight L f, splitRight R t with
    | some (.deep (.elem _ _ _ kL) iL _), some (.deep (.elem _ _ _ kR) iR _) =>
      bridgeCompat S e n kL iL kR iR
    | _, _ => true

/-- **the guard of `replace_undo`**: in `doc`, the ancestor of `f` and the ancestor of `t` have
    join-compatible types at every depth `d` with `e < d ≤ e + n`, where `e = depth(f) − openStart`
    (the levels above the slice) and `n = singleDepth` (the levels at which the slice is a single
    node open on both sides — the levels the step merges *through* a slice node). -/
def sidesCompatible (S : Schema) (doc : Node) (f t : Nat) (sl : Slice) : Bool :=
  bridgeCompat S (depthAt doc.kids f - sl.openStart)
    (singleDepth sl.content sl.openStart sl.openEnd) doc.kids f doc.kids t

/-- **fit guard of `replaceAround_undo`**: the gap `gf … gt`, removed from the old slice
    `doc.slice(f, t)`, can be put back by `insert_at` — `insert_into`'s check of the node the gap
    lands in (when that node is complete in the slice) does not reject it.  Since `insert_into`
    validates the content it *built* (`parent.type.valid_content(result)`; finding
    C04-around-text-gap was the old test `parent.can_replace(index, index, gap)`, which at a position
    inside a text child counted that text twice, and where `remove_range` merged the two texts around
    the gap placed the gap before the merged text) this holds for every applied step on a valid
    normal-form document up to pair-alignment of the cut: `gapFitsBack_of_valid`, Proofs/GapBack.lean. -/
def gapFitsBack (S : Schema) (doc : Node) (f t gf gt : Nat) : Bool :=
  match doc.slice f t, doc.slice gf gt with
  | .ok old, .ok gap =>
    match old.removeBetween (gf - f) (gt - f) with
    | .ok rem =>
      match rem.insertAt S (gf - f) gap.content with
      | .ok (some _) => true
      | _ => false
    | .error _ => false
  | _, _ => false

/-- adjacency at a seam: not two text nodes with equal marks -/
def seamFree : Option Node → Option Node → Bool
  | some a, some b => adjOk a b
  | _, _ => true

/-- `T` (relative to the list) is a child boundary, and the node before the gap (`prev`) does not
    merge with the node after it -/
def gapEnd (prev : Option Node) : List Node → Nat → Bool
  | [], T => T == 0
  | n :: ns, T => if T = 0 then seamFree prev (some n) else decide (n.size ≤ T) && gapEnd prev ns (T - n.size)

/-- **structural sufficient condition for `gapFitsBack`**: the gap `F … T` lies between complete
    children of the list or of a node reached by descending into element children (both ends at child
    boundaries of the same node, not inside text), and the children before and after it are not two
    texts with equal marks.  (`prev` = the child before the current scan position.) -/
def gapClean : List Node → Option Node → Nat → Nat → Bool
  | [], _, F, T => F == 0 && T == 0
  | n :: ns, prev, F, T =>
    if F = 0 then gapEnd prev (n :: ns) T
    else if n.size ≤ F then gapClean ns (some n) (F - n.size) (T - n.size)
    else match n with
      | .elem _ _ _ k => decide (T < n.size) && gapClean k none (F - 1) (T - 1)
      | _ => false

/-- the guard `sidesCompatible` for the plain replace a replace-around step performs (its slice
    with the gap inserted) -/
def sidesCompatibleAround (S : Schema) (doc : Node) (f t gf gt : Nat) (sl : Slice) (ins : Nat) : Bool :=
  match doc.slice gf gt with
  | .ok gap =>
    match sl.insertAt S ins gap.content with
    | .ok (some inserted) => sidesCompatible S doc f t inserted
    | _ => true
  | .error _ => true

/-- `compatible_content` is transitive on the node types of the schema -/
def compatTransB (S : Schema) : Bool :=
  (List.range S.nodes.size).all fun x => (List.range S.nodes.size).all fun y =>
    (List.range S.nodes.size).all fun z =>
      !(S.compatibleContent x y && S.compatibleContent y z) || S.compatibleContent x z

end PM
