/-
  PM/TypePlan.lean — model of the node-level planners of `Transform` (transform.py):
  `add_node_mark`, `remove_node_mark` (Mark | MarkType), `set_node_attribute`, `set_node_markup`,
  `clear_incompatible`, `set_block_type`.

  Two of them go through `Transform.replace` → `replace_step`, which hands anything that does not
  fit trivially to the `Fitter` (transform/replace.py, property C11 — not modelled here).  The model
  treats `Fitter(...).fit()` as an **oracle**: the planner state carries the list of answers the
  real Fitter gave, in call order, and consumes one each time the code would call it.  Everything
  else — which steps, in which order, at which mapped positions — is computed by the model.
-/
import PM.Basic
import PM.Marks
import PM.Content
import PM.Fill
import PM.Resolve
import PM.Structure
import PM.Step
import PM.Transform
import PM.MarkPlan
namespace PM

/-! ### node creation -/

/-- `NodeType.create(attrs, None, marks)`: empty content; text nodes cannot be created this way -/
def Schema.createNode (S : Schema) (ty : TypeId) (attrs : Attrs) (marks : Marks) : Res Node :=
  let nt := S.nodeType ty
  if nt.isText then .error .valueError
  else (computeAttrs nt.attrs attrs).map (fun a =>
    if nt.isLeaf then Node.leaf ty a (setFrom marks) else Node.elem ty a (setFrom marks) [])

/-- `NodeType.create_and_fill()` (no arguments): default attributes, content filled up to a valid
    end; `none` = returns `None` (or the recursion does not end: `fuel`) -/
def Schema.createAndFill0 (S : Schema) : (fuel : Nat) → TypeId → Option Node
  | 0, _ => none
  | fuel + 1, t =>
    let nt := S.nodeType t
    match computeAttrs nt.attrs [] with
    | .error _ => none
    | .ok a =>
      match fillBefore (S.dfa t) S.generatable 0 [] true with
      | none => none
      | some tys =>
        match tys.mapM (S.createAndFill0 fuel) with
        | none => none
        | some kids => some (if nt.isLeaf then Node.leaf t a [] else Node.elem t a [] kids)

/-! ### the three one-step planners -/

/-- `Transform.add_node_mark(pos, mark)` -/
def Tr.addNodeMark (S : Schema) (tr : Tr) (pos : Nat) (m : Mark) : Res Tr :=
  tr.step S (.addNodeMark pos m)

/-- `Transform.remove_node_mark(pos, mark)`: for a mark type the first mark of that type on the node
    is removed (nothing happens when there is none); no node at `pos` → `ValueError` -/
def Tr.removeNodeMark (S : Schema) (tr : Tr) (pos : Nat) (sel : Mark ⊕ MarkTypeId) : Res Tr :=
  match sel with
  | .inl m => tr.step S (.removeNodeMark pos m)
  | .inr t =>
    match tr.doc.nodeAt pos with
    | .error e => .error e
    | .ok none => .error .valueError
    | .ok (some n) =>
      match markTypeIsInSet t n.marks with
      | none => .ok tr
      | some found => tr.step S (.removeNodeMark pos found)

/-- `Transform.set_node_attribute(pos, attr, value)` -/
def Tr.setNodeAttribute (S : Schema) (tr : Tr) (pos : Nat) (name value : String) : Res Tr :=
  tr.step S (.attr pos name value)

/-! ### planner state with the Fitter oracle -/

structure PSt where
  tr   : Tr
  /-- what `Fitter(...).fit()` returned (or raised) at its successive calls -/
  fits : List (Res (Option Step)) := []
deriving Inhabited

def PSt.step (S : Schema) (st : PSt) (s : Step) : Res PSt :=
  (st.tr.step S s).map (fun tr => { st with tr := tr })

def PSt.stepAll (S : Schema) (st : PSt) : List Step → Res PSt
  | [] => .ok st
  | s :: ss =>
    match st.step S s with
    | .ok st' => st'.stepAll S ss
    | .error e => .error e

/-- `fits_trivially(from, to, slice)`; `.error` = `content_match_at` raises on invalid content -/
def fitsTrivially (S : Schema) (rf rt : RPos) (sl : Slice) : Res Bool :=
  if sl.openStart == 0 && sl.openEnd == 0 && rf.start rf.depth == rt.start rt.depth then
    match S.nodeCanReplace rf.parent (rf.index rf.depth) (rt.index rt.depth) sl.content with
    | none => .error .valueError
    | some b => .ok b
  else .ok false

/-- `Transform.replace(from, to, slice)`: `replace_step` (nothing to do / trivial fit / Fitter), then
    `self.step` of the result if there is one.  An exhausted oracle is reported as `.internal`. -/
def PSt.replace (S : Schema) (st : PSt) (f t : Nat) (sl : Slice) : Res PSt :=
  if f == t && sl.size == 0 then .ok st
  else
    match st.tr.doc.resolve f, st.tr.doc.resolve t with
    | some rf, some rt =>
      match fitsTrivially S rf rt sl with
      | .error e => .error e
      | .ok true => st.step S (.replace f t sl false)
      | .ok false =>
        match st.fits with
        | [] => .error .internal
        | .error e :: _ => .error e
        | .ok none :: rest => .ok { st with fits := rest }
        | .ok (some s) :: rest => ({ st with fits := rest }).step S s
    | _, _ => .error .valueError

/-! ### set_node_markup -/

/-- the step `set_node_markup` / `set_block_type` emit for a node spanning `[s, e)`: keep the
    content as the gap, wrap it in the new (empty) node -/
def retypeStep (s e : Nat) (newNode : Node) : Step :=
  .replaceAround s e (s + 1) (e - 1) ⟨[newNode], 0, 0⟩ 1 true

/-- `Transform.set_node_markup(pos, type, attrs, marks)`.  `ty = none` is Python's falsy `type`
    (keep the node's type); `marks = none` or `some []` keeps the node's marks (`marks or node.marks`). -/
def PSt.setNodeMarkup (S : Schema) (st : PSt) (pos : Nat) (ty : Option TypeId) (attrs : Attrs)
    (marks : Option Marks) : Res PSt :=
  match st.tr.doc.nodeAt pos with
  | .error e => .error e
  | .ok none => .error .valueError                       -- "No node at given position"
  | .ok (some node) =>
    let ty := ty.getD (S.tyOf node)
    let ms := match marks with
      | some (m :: r) => m :: r
      | _ => node.marks
    match S.createNode ty attrs ms with
    | .error e => .error e
    | .ok newNode =>
      if node.isLeaf then st.replace S pos (pos + node.size) ⟨[newNode], 0, 0⟩
      else if !S.validContent ty node.kids then .error .valueError
      else st.step S (retypeStep pos (pos + node.size) newNode)

/-! ### clear_incompatible -/

/-- the matches of `re.compile(r"\r?\n|\r")` in a text, as `(start, end)` offsets counted in
    UTF-16 units from `k` (CR and LF are single units, so scanning units equals scanning code points) -/
def newlineSpans : List Nat → Nat → List (Nat × Nat)
  | [], _ => []
  | [c], k => if c == 10 || c == 13 then [(k, k + 1)] else []
  | c :: d :: r, k =>
    if c == 13 && d == 10 then (k, k + 2) :: newlineSpans r (k + 2)
    else if c == 10 || c == 13 then (k, k + 1) :: newlineSpans (d :: r) (k + 1)
    else newlineSpans (d :: r) (k + 1)

/-- the `for i in range(node.child_count)` loop: `q` is the match state, `cur` the position of the
    child, `repl` the pending `repl_steps` (in append order); `RemoveMarkStep`s are applied at once -/
def clearLoop (S : Schema) (pty : TypeId) : List Node → (q cur : Nat) → (repl : List Step) → PSt →
    Res (Nat × Nat × List Step × PSt)
  | [], q, cur, repl, st => .ok (q, cur, repl, st)
  | c :: cs, q, cur, repl, st =>
    let end_ := cur + c.size
    match (S.dfa pty).matchType q (S.tyOf c) with
    | none => clearLoop S pty cs q end_ (repl ++ [.replace cur end_ Slice.empty false]) st
    | some q' =>
      let bad := c.marks.filter (fun m => !(S.nodeType pty).allowsMarkType m.ty)
      match st.stepAll S (bad.map (fun m => Step.removeMark cur end_ m)) with
      | .error e => .error e
      | .ok st' =>
        let nl : List Step :=
          match c with
          | .text s ms =>
            if (S.nodeType pty).code then []
            else
              let sl : Slice := ⟨[.text [32] (setFrom ((S.nodeType pty).allowedMarks ms))], 0, 0⟩
              (newlineSpans s 0).map (fun ab => Step.replace (cur + ab.1) (cur + ab.2) sl false)
          | _ => []
        clearLoop S pty cs q' end_ (repl ++ nl) st'

/-- `Transform.clear_incompatible(pos, parent_type, match)` with `match` = state `q0` of the
    parent type's automaton (`0` = `parent_type.content_match`).
    Steps in the order applied: the `RemoveMarkStep`s during the walk, the filler insertion at the
    end of the node when the walk does not end in a valid end state, then the collected
    `ReplaceStep`s last to first. -/
def PSt.clearIncompatible (S : Schema) (st : PSt) (pos : Nat) (pty : TypeId) (q0 : Nat := 0) : Res PSt :=
  match st.tr.doc.nodeAt pos with
  | .error e => .error e
  | .ok none => .error .internal                          -- `assert node is not None`
  | .ok (some node) =>
    match clearLoop S pty node.kids q0 (pos + 1) [] st with
    | .error e => .error e
    | .ok (q, cur, repl, st1) =>
      let filled : Res PSt :=
        if (S.dfa pty).validEnd q then .ok st1
        else
          match fillBefore (S.dfa pty) S.generatable q [] true with
          | none => .error .internal                      -- `assert fill is not None`
          | some tys =>
            match tys.mapM (S.createAndFill0 (S.nodes.size + 1)) with
            | none => .error .internal
            | some nodes => st1.replace S cur cur ⟨nodes, 0, 0⟩
      match filled with
      | .error e => .error e
      | .ok st2 => st2.stepAll S repl.reverse

/-! ### set_block_type -/

/-- `node.is_textblock` -/
def Schema.isTextblockN (S : Schema) : Node → Bool
  | .text .. => false
  | .leaf t _ _ => !(S.nodeType t).isInline && (S.nodeType t).inlineContent
  | .elem t _ _ _ => !(S.nodeType t).isInline && (S.nodeType t).inlineContent

/-- `type.default_attrs or empty_attrs` as an association list -/
def NodeType.defaultAttrs (nt : NodeType) : Attrs :=
  if nt.attrs.all (·.hasDefault) then nt.attrs.map (fun d => (d.name, d.default)) else []

/-- `node.has_markup(type, attrs)` (no marks argument: the node must carry no marks).  Attribute
    dictionaries are association lists in declaration order (the codec's form). -/
def Schema.hasMarkup (S : Schema) (n : Node) (ty : TypeId) (attrs : Attrs) : Bool :=
  S.tyOf n == ty &&
  n.attrs == (if attrs.isEmpty then (S.nodeType ty).defaultAttrs else attrs) &&
  n.marks.isEmpty

/-- `can_change_type(doc, pos, type)` -/
def canChangeTypeR (S : Schema) (doc : Node) (pos : Nat) (ty : TypeId) : Res Bool :=
  match doc.resolve pos with
  | none => .error .valueError
  | some r =>
    let index := r.index r.depth
    match S.nodeCanReplaceWith r.parent index (index + 1) ty with
    | none => .error .valueError
    | some b => .ok b

/-- `self.mapping.slice(map_from).map(pos, assoc)` (no mirrors in a plain Transform) -/
def PSt.mapFrom (st : PSt) (mapFrom : Nat) (pos : Nat) (assoc : Int) : Nat :=
  ((st.tr.maps.drop mapFrom).foldl (fun p sm => sm.map p assoc) (pos : Int)).toNat

/-- the callback of `set_block_type` on one visit of the walk over the *original* document; the
    state is `(planner state, skip)`: visits at positions `< skip` are descendants of a node for
    which the callback returned `False` -/
def setBlockTypeVisit (S : Schema) (ty : TypeId) (attrs : Attrs) (mapFrom : Nat)
    (acc : Res (PSt × Nat)) (v : NV) : Res (PSt × Nat) :=
  match acc with
  | .error e => .error e
  | .ok (st, skip) =>
    if v.pos < skip then .ok (st, skip)
    else if !S.isTextblockN v.node || S.hasMarkup v.node ty attrs then .ok (st, skip)
    else
      match canChangeTypeR S st.tr.doc (st.mapFrom mapFrom v.pos 1) ty with
      | .error e => .error e
      | .ok false => .ok (st, skip)
      | .ok true =>
        match st.clearIncompatible S (st.mapFrom mapFrom v.pos 1) ty with
        | .error e => .error e
        | .ok st1 =>
          let s := st1.mapFrom mapFrom v.pos 1
          let e := st1.mapFrom mapFrom (v.pos + v.node.size) 1
          match S.createNode ty attrs v.node.marks with
          | .error e => .error e
          | .ok nn => (st1.step S (retypeStep s e nn)).map (fun st2 => (st2, v.pos + v.node.size))

/-- `Transform.set_block_type(from, to, type, attrs)`; the `IndexError` of `nodes_between` for a
    `to` beyond the document comes after the walk -/
def PSt.setBlockType (S : Schema) (st : PSt) (f t : Nat) (ty : TypeId) (attrs : Attrs) : Res PSt :=
  let nt := S.nodeType ty
  if !(!nt.isInline && nt.inlineContent) then .error .valueError
  else
    match (S.docVisits st.tr.doc f t).foldl (setBlockTypeVisit S ty attrs st.tr.steps.length) (.ok (st, 0)) with
    | .error e => .error e
    | .ok (st', _) => if fsize st.tr.doc.kids < t then .error .internal else .ok st'

end PM
