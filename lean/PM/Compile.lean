/-
  PM/Compile.lean — the content-expression *compiler* of `prosemirror/model/content.py` (C06):
  `parse_expr*` (AST shape of the code), `nfa(expr)` (Thompson-style construction with `node()`,
  `edge()`, `connect()`, `compile()`), `null_from`, `dfa(nfa)` (subset construction, `explore`),
  `check_for_dead_ends`.  Core Lean only.

  Representation of the construction heap.  In the code an edge is a dict object `{"term", "to"}`
  that is appended to `nfa_[from_]` when it is created and whose `"to"` may be patched later by
  `connect`.  The model keeps the edge objects in one list in allocation order (`NState.edges`, each
  with its source node); a *reference* to an edge (what `compile` returns in its list of dangling
  edges) is its index in that list.  `nfa_[n]` is the subsequence of the edges with `src = n` — `edge()`
  is the only writer of `nfa_[n]` and it appends.  `connect` sets `to` of the referenced edges.
-/
import PM.Basic
import PM.Content
import PM.Regex
namespace PM

/-- the expression AST as `parse_expr` builds it (dict kinds `choice | seq | plus | star | opt | range | name`);
    `range … max`: `none` is the code's `max = -1` (`{n,}`) -/
inductive Expr where
  | choice (es : List Expr)
  | seq (es : List Expr)
  | plus (e : Expr)
  | star (e : Expr)
  | opt (e : Expr)
  | range (min : Nat) (max : Option Nat) (e : Expr)
  | name (t : Nat)
deriving Repr, Inhabited

/-! ### `nfa(expr)` -/

structure NEdge where
  src  : Nat
  term : Option Nat
  to   : Option Nat
deriving Repr, DecidableEq, Inhabited

/-- the state of the closure variables of `nfa()`: `size = len(nfa_)`, the edge objects in allocation order -/
structure NState where
  size  : Nat
  edges : List NEdge
deriving Repr, Inhabited

/-- `node()` -/
def NState.node (s : NState) : Nat × NState := (s.size, { s with size := s.size + 1 })

/-- `edge(from_, to, term)`; returns the reference of the new edge -/
def NState.edge (s : NState) (from_ : Nat) (to : Option Nat) (term : Option Nat) : Nat × NState :=
  (s.edges.length, { s with edges := s.edges ++ [⟨from_, term, to⟩] })

/-- `connect(edges, to)` -/
def NState.connect (s : NState) (refs : List Nat) (to : Nat) : NState :=
  { s with edges := s.edges.mapIdx (fun i e => if refs.contains i then { e with to := some to } else e) }

/-- the mandatory copies of `range`: `for _ in range(min): next = node(); connect(compile(expr, cur), next); cur = next` -/
def repMand (f : Nat → NState → List Nat × NState) : Nat → Nat → NState → Nat × NState
  | 0, cur, s => (cur, s)
  | n + 1, cur, s =>
    let (next, s) := s.node
    let (d, s) := f cur s
    repMand f n next (s.connect d next)

/-- the optional copies: `for _ in range(min, max): next = node(); edge(cur, next); connect(compile(expr, cur), next); cur = next` -/
def repOpt (f : Nat → NState → List Nat × NState) : Nat → Nat → NState → Nat × NState
  | 0, cur, s => (cur, s)
  | n + 1, cur, s =>
    let (next, s) := s.node
    let (_, s) := s.edge cur (some next) none
    let (d, s) := f cur s
    repOpt f n next (s.connect d next)

mutual
/-- `compile(expr, from_)`: adds nodes and edges, returns the references of the edges left dangling -/
def compile : Expr → Nat → NState → List Nat × NState
  | .choice es, from_, s => compileChoice es from_ s
  | .seq es, from_, s => compileSeq es from_ s
  | .star e, from_, s =>
    let (loop, s) := s.node
    let (_, s) := s.edge from_ (some loop) none
    let (d, s) := compile e loop s
    let s := s.connect d loop
    let (r, s) := s.edge loop none none
    ([r], s)
  | .plus e, from_, s =>
    let (loop, s) := s.node
    let (d1, s) := compile e from_ s
    let s := s.connect d1 loop
    let (d2, s) := compile e loop s
    let s := s.connect d2 loop
    let (r, s) := s.edge loop none none
    ([r], s)
  | .opt e, from_, s =>
    let (r, s) := s.edge from_ none none
    let (d, s) := compile e from_ s
    (r :: d, s)
  | .range mn mx e, from_, s =>
    let (cur, s) := repMand (compile e) mn from_ s
    match mx with
    | none =>
      -- `{0,}` (`cur == from_`): loop on a node of its own, as `*` does
      let (cur, s) := if cur == from_ then
          let (c, s) := s.node
          let (_, s) := s.edge from_ (some c) none
          (c, s)
        else (cur, s)
      let (d, s) := compile e cur s
      let s := s.connect d cur
      let (r, s) := s.edge cur none none
      ([r], s)
    | some m =>
      let (cur, s) := repOpt (compile e) (m - mn) cur s
      let (r, s) := s.edge cur none none
      ([r], s)
  | .name t, from_, s =>
    let (r, s) := s.edge from_ none (some t)
    ([r], s)
/-- `reduce(lambda out, expr: [*out, *compile(expr, from_)], exprs, [])` -/
def compileChoice : List Expr → Nat → NState → List Nat × NState
  | [], _, s => ([], s)
  | e :: es, from_, s =>
    let (d, s) := compile e from_ s
    let (d', s) := compileChoice es from_ s
    (d ++ d', s)
/-- the `while True` loop of the `seq` case (an empty list is an `IndexError` in the code; the parser never builds one) -/
def compileSeq : List Expr → Nat → NState → List Nat × NState
  | [], _, s => ([], s)
  | [e], from_, s => compile e from_ s
  | e :: e' :: es, from_, s =>
    let (d, s) := compile e from_ s
    let (n, s) := s.node
    compileSeq (e' :: es) n (s.connect d n)
end

/-- one edge of the finished NFA: `(term, to)`, `term = none` is an ε-edge -/
abbrev NfaEdge := Option Nat × Nat
/-- the finished `nfa_`: `nfa[n]` = the edges leaving node `n`, in the order of the code's list; the last node accepts -/
abbrev Nfa := Array (List NfaEdge)

def NState.out (s : NState) (n : Nat) : List NfaEdge :=
  (s.edges.filter (fun e => e.src == n)).map (fun e => (e.term, e.to.getD 0))

def NState.toNfa (s : NState) : Nfa := (Array.range s.size).map s.out

/-- the final state of the construction: `connect(compile(expr, 0), node())` -/
def nfaState (e : Expr) : NState :=
  let (d, s) := compile e 0 { size := 1, edges := [] }
  let (acc, s) := s.node
  s.connect d acc

/-- `nfa(expr)` -/
def nfa (e : Expr) : Nfa := (nfaState e).toNfa

/-! ### `null_from` -/

structure ScanSt where
  skipped : List Nat
  result  : List Nat
deriving Repr, Inhabited

/-- `scan(n)` of `null_from` (fuel = recursion depth; `3 * len(nfa) + 3` is never exhausted, see
    `Proofs/Compile.lean`).  A node whose only edge is an ε-edge is passed through (and remembered in
    `skipped`: the repo's fix for cycles of such nodes). -/
def scan (nfa : Nfa) : Nat → Nat → ScanSt → ScanSt
  | 0, _, st => st
  | fuel + 1, n, st =>
    let edges := nfa.getD n []
    match edges with
    | [(none, to)] =>
      if st.skipped.contains n then st else scan nfa fuel to { st with skipped := n :: st.skipped }
    | _ =>
      edges.foldl (fun st e =>
        if e.1.isNone && !st.result.contains e.2 then scan nfa fuel e.2 st else st)
        { st with result := st.result ++ [n] }

def scanFuel (nfa : Nfa) : Nat := 3 * nfa.size + 3

/-- `null_from(nfa, node)`: `sorted(result)` (ascending; duplicates possible, as in the code) -/
def nullFrom (nfa : Nfa) (node : Nat) : List Nat :=
  (scan nfa (scanFuel nfa) node ⟨[], []⟩).result.mergeSort (fun a b => a ≤ b)

/-! ### `dfa(nfa)` -/

/-- `for n in null_from(…): if set is None: …; if n not in set: set.append(n)` on the entry of `term` -/
def addAll (set : List Nat) (ns : List Nat) : List Nat :=
  ns.foldl (fun s n => if s.contains n then s else s ++ [n]) set

/-- one `(term, to)` edge of one node in `explore`'s double loop, acting on `out` -/
def addOut (nfa : Nfa) (out : List (Nat × List Nat)) (e : NfaEdge) : List (Nat × List Nat) :=
  match e.1 with
  | none => out
  | some t =>
    let ns := nullFrom nfa e.2
    if out.any (fun p => p.1 == t) then
      out.map (fun p => if p.1 == t then (p.1, addAll p.2 ns) else p)
    else if ns.isEmpty then out
    else out ++ [(t, addAll [] ns)]

/-- `out` after the double loop of `explore(states)` (sets still in insertion order) -/
def stepOut (nfa : Nfa) (states : List Nat) : List (Nat × List Nat) :=
  states.foldl (fun out node => (nfa.getD node []).foldl (addOut nfa) out) []

/-- `out[i][1].sort(key=cmp_to_key(cmp))` with `cmp(a, b) = b - a`: descending -/
def sortDesc (l : List Nat) : List Nat := l.mergeSort (fun a b => b ≤ a)

structure DSt where
  labeled : List (List Nat × Nat)     -- the dict `labeled` (key: the comma-joined state list, injective)
  states  : Array DfaState            -- the `ContentMatch` objects in creation order
deriving Repr, Inhabited

def lookupKey (labeled : List (List Nat × Nat)) (key : List Nat) : Option Nat :=
  (labeled.find? (fun p => p.1 == key)).map (·.2)

/-- `explore(states)`; fuel = recursion depth (every nested call registers a new key) -/
def exploreSt (nfa : Nfa) : Nat → List Nat → DSt → Nat × DSt
  | 0, _, st => (0, st)
  | fuel + 1, states, st =>
    let out := stepOut nfa states
    let idx := st.states.size
    let st : DSt := { labeled := st.labeled ++ [(states, idx)],
                      states := st.states.push ⟨states.contains (nfa.size - 1), []⟩ }
    let r := out.foldl (fun (acc : List (Nat × Nat) × DSt) (p : Nat × List Nat) =>
        let key := sortDesc p.2
        match lookupKey acc.2.labeled key with
        | some j => (acc.1 ++ [(p.1, j)], acc.2)
        | none =>
          let (j, st') := exploreSt nfa fuel key acc.2
          (acc.1 ++ [(p.1, j)], st')) ([], st)
    (idx, { r.2 with states := r.2.states.modify idx (fun s => { s with edges := r.1 }) })

def exploreFuel (nfa : Nfa) : Nat := 2 ^ nfa.size + 2

/-- `dfa(nfa)`: states in creation order (depth first), state 0 = `explore(null_from(nfa, 0))` -/
def dfa (nfa : Nfa) : Dfa :=
  (exploreSt nfa (exploreFuel nfa) (nullFrom nfa 0) ⟨[], #[]⟩).2.states

/-! ### renumbering by breadth-first order over `.next` (what the harness' `dump_dfa` does with the real graph) -/

def Dfa.bfsOrder (d : Dfa) : List Nat :=
  let rec go : Nat → Nat → List Nat → List Nat
    | 0, _, order => order
    | fuel + 1, i, order =>
      match order[i]? with
      | none => order
      | some q =>
        let order := (d.edgesOf q).foldl (fun o e => if o.contains e.2 then o else o ++ [e.2]) order
        go fuel (i + 1) order
  go (d.size + 1) 0 [0]

def Dfa.bfs (d : Dfa) : Dfa :=
  let order := d.bfsOrder
  (order.map (fun q => (⟨d.validEnd q, (d.edgesOf q).map (fun e => (e.1, order.idxOf e.2))⟩ : DfaState))).toArray

/-! ### `check_for_dead_ends` -/

/-- one pass of the `while changed` loop: `for state in work: if state in live: continue; … live.append(state)` -/
def Dfa.livePass (d : Dfa) (generatable : Nat → Bool) (work : List Nat) (live : List Nat) : List Nat :=
  work.foldl (fun live q =>
    if live.contains q then live
    else if (d.edgesOf q).any (fun e => live.contains e.2 && generatable e.1) then live ++ [q]
    else live) live

/-- the `while changed` loop (every pass but the last adds a state of `work`, so `len(work) + 1` passes suffice) -/
def Dfa.liveLoop (d : Dfa) (generatable : Nat → Bool) (work : List Nat) : Nat → List Nat → List Nat
  | 0, live => live
  | fuel + 1, live =>
    let live' := d.livePass generatable work live
    if live'.length == live.length then live else d.liveLoop generatable work fuel live'

/-- the states reachable from the start from which a valid end can be reached through generatable types only -/
def Dfa.liveStates (d : Dfa) (generatable : Nat → Bool) : List Nat :=
  let work := d.bfsOrder
  d.liveLoop generatable work (work.length + 1) (work.filter d.validEnd)

/-- `check_for_dead_ends` raises: some state reachable from the start is not live -/
def Dfa.hasDeadEnd (d : Dfa) (generatable : Nat → Bool) : Bool :=
  let live := d.liveStates generatable
  d.bfsOrder.any (fun q => !live.contains q)

/-! ### the expression read as a regular expression -/

mutual
def Expr.toRE : Expr → RE
  | .choice es => RE.alts (Expr.toREs es)
  | .seq es => RE.seqs (Expr.toREs es)
  | .plus e => RE.plus e.toRE
  | .star e => RE.star e.toRE
  | .opt e => RE.opt e.toRE
  | .range mn mx e => RE.range e.toRE mn mx
  | .name t => RE.sym t
def Expr.toREs : List Expr → List RE
  | [] => []
  | e :: es => e.toRE :: Expr.toREs es
end

mutual
/-- no empty `choice` / `seq` list (the parser never builds one: an empty `seq` is an `IndexError` in `compile`,
    an empty `choice` compiles to an automaton that accepts nothing) -/
def Expr.wf : Expr → Bool
  | .choice es => !es.isEmpty && Expr.wfs es
  | .seq es => !es.isEmpty && Expr.wfs es
  | .plus e => e.wf
  | .star e => e.wf
  | .opt e => e.wf
  | .range _ _ e => e.wf
  | .name _ => true
def Expr.wfs : List Expr → Bool
  | [] => true
  | e :: es => e.wf && Expr.wfs es
end

/-! ### the parser (`TokenStream`, `parse_expr`, `parse_expr_seq`, `parse_expr_subscript`, `parse_expr_range`,
    `parse_num`, `parse_expr_atom`, `resolve_name`), producing the code's AST

  A total function: the mutually recursive descent of the code is written with a recursion guard (`fuel`,
  one unit per call); `parseFuel` is never exhausted (`Proofs/SchemaBuild.lean: parseC_ne_fuel`).
  Every way in which the code refuses an expression is kept apart by exception class:
  the `SyntaxError`s of `stream.err`, and the three places where the parser runs off the end of the
  tokens or into a bad number and dies with another exception. -/

/-- what `ContentMatch.parse` raises before the automaton is built -/
inductive CErr where
  | syntax        -- `SyntaxError` of `stream.err`: unexpected token, missing `)`, unclosed range, number expected, trailing text
  | unknownName   -- `SyntaxError` "No node type or group … found"
  | mixed         -- `SyntaxError` "Mixing inline and block content"
  | noToken       -- `TypeError`: `re.match(r"\W", None)` in `parse_expr_atom` at the end of the tokens (`"a |"`, `"("`)
  | noNumber      -- `AssertionError`: `parse_num` at the end of the tokens (`"a{"`, `"a{2,"`)
  | badInt        -- `ValueError`: `int()` of a word that starts with a digit but is no integer literal (`"a{1a}"`)
  | fuel          -- the recursion guard of the model (never returned by `parseC`)
deriving Repr, DecidableEq, Inhabited

/-- the reading that only knows "refused for which documented reason" (`PM/Regex.lean`) -/
def CErr.toPErr : CErr → PErr
  | .unknownName => .unknownName
  | .mixed => .mixed
  | _ => .syntax

abbrev PRes (α : Type) := Except CErr (α × PState)

/-- `NUMBER_REGEX.match(next)` fails: the word starts with a digit -/
def startsWithDigit (t : String) : Bool :=
  match t.toList with
  | c :: _ => c.isDigit
  | [] => false

/-- `int(word)` of a word of word characters: digits, single underscores between digits -/
def pyIntGo : List Char → Bool → Nat → Option Nat
  | [], prevDigit, acc => if prevDigit then some acc else none
  | c :: r, prevDigit, acc =>
    if c.isDigit then pyIntGo r true (acc * 10 + (c.toNat - 48))
    else if c == '_' && prevDigit then pyIntGo r false acc
    else none

def pyInt (t : String) : Option Nat := pyIntGo t.toList false 0

/-- `parse_num` -/
def pNum (st : PState) : PRes Nat :=
  match st.toks with
  | [] => .error .noNumber
  | t :: r =>
    if !startsWithDigit t then .error .syntax
    else match pyInt t with
      | none => .error .badInt
      | some n => .ok (n, { st with toks := r })

/-- `parse_expr_range` (the `{` is eaten): `(min, max)`, `max = none` is the code's `-1` -/
def pRange (st : PState) : PRes (Nat × Option Nat) :=
  match pNum st with
  | .error e => .error e
  | .ok (mn, st) =>
    let mx : PRes (Option Nat) :=
      match st.toks with
      | t :: r =>
        if t == "," then
          if r.head? == some "}" then .ok (none, { st with toks := r })
          else match pNum { st with toks := r } with
            | .error e => .error e
            | .ok (m, st) => .ok (some m, st)
        else .ok (some mn, st)
      | [] => .ok (some mn, st)
    match mx with
    | .error e => .error e
    | .ok (mx, st) =>
      match st.toks with
      | t :: r => if t == "}" then .ok ((mn, mx), { st with toks := r }) else .error .syntax
      | [] => .error .syntax

/-- the `while True` loop of `parse_expr_subscript` -/
def pSuffix : Nat → Expr → PState → PRes Expr
  | 0, _, _ => .error .fuel
  | n + 1, e, st =>
    match st.toks with
    | [] => .ok (e, st)
    | t :: r =>
      if t == "+" then pSuffix n (.plus e) { st with toks := r }
      else if t == "*" then pSuffix n (.star e) { st with toks := r }
      else if t == "?" then pSuffix n (.opt e) { st with toks := r }
      else if t == "{" then
        match pRange { st with toks := r } with
        | .error err => .error err
        | .ok ((mn, mx), st) => pSuffix n (.range mn mx e) st
      else .ok (e, st)

/-- `resolve_name`: a type of that name, else the members of the group in schema order -/
def resolveIds (table : List NameInfo) (name : String) : List Nat :=
  match table.findIdx? (·.name == name) with
  | some i => [i]
  | none => (List.range table.length).filter (fun i => (table[i]!).groups.contains name)

/-- the `iteratee` of `parse_expr_atom` over the resolved types: `stream.inline` after them, or the mixing error -/
def checkInline (table : List NameInfo) : List Nat → Option Bool → Except CErr (Option Bool)
  | [], inl => .ok inl
  | i :: is, none => checkInline table is (some (table[i]!).isInline)
  | i :: is, some b => if b != (table[i]!).isInline then .error .mixed else checkInline table is (some b)

/-- a single type is a bare `name`, several are a `choice` -/
def namesExpr : List Nat → Expr
  | [i] => .name i
  | ids => .choice (ids.map .name)

/-- the name branch of `parse_expr_atom` (the word `t` is the next token, `r` what follows it) -/
def pName (table : List NameInfo) (t : String) (r : List String) (st : PState) : PRes Expr :=
  let ids := resolveIds table t
  if ids.isEmpty then .error .unknownName
  else match checkInline table ids st.inline with
    | .error e => .error e
    | .ok inl => .ok (namesExpr ids, { toks := r, inline := inl })

/-- `exprs[0] if len(exprs) == 1 else {"type": "choice", …}` -/
def mkChoice : List Expr → Expr
  | [e] => e
  | es => .choice es

def mkSeq : List Expr → Expr
  | [e] => e
  | es => .seq es

mutual
/-- `parse_expr`: the loop, `acc` = `exprs` so far -/
def pChoice (table : List NameInfo) : Nat → List Expr → PState → PRes Expr
  | 0, _, _ => .error .fuel
  | n + 1, acc, st =>
    match pSeq table n [] st with
    | .error e => .error e
    | .ok (e, st) =>
      match st.toks with
      | t :: r =>
        if t == "|" then pChoice table n (acc ++ [e]) { st with toks := r }
        else .ok (mkChoice (acc ++ [e]), st)
      | [] => .ok (mkChoice (acc ++ [e]), st)
/-- `parse_expr_seq` -/
def pSeq (table : List NameInfo) : Nat → List Expr → PState → PRes Expr
  | 0, _, _ => .error .fuel
  | n + 1, acc, st =>
    match pSub table n st with
    | .error e => .error e
    | .ok (e, st) =>
      match st.toks with
      | t :: _ =>
        if t == ")" || t == "|" then .ok (mkSeq (acc ++ [e]), st)
        else pSeq table n (acc ++ [e]) st
      | [] => .ok (mkSeq (acc ++ [e]), st)
/-- `parse_expr_subscript` -/
def pSub (table : List NameInfo) : Nat → PState → PRes Expr
  | 0, _ => .error .fuel
  | n + 1, st =>
    match pAtom table n st with
    | .error e => .error e
    | .ok (e, st) => pSuffix n e st
/-- `parse_expr_atom` -/
def pAtom (table : List NameInfo) : Nat → PState → PRes Expr
  | 0, _ => .error .fuel
  | n + 1, st =>
    match st.toks with
    | [] => .error .noToken
    | t :: r =>
      if t == "(" then
        match pChoice table n [] { st with toks := r } with
        | .error e => .error e
        | .ok (e, st) =>
          match st.toks with
          | t' :: r' => if t' == ")" then .ok (e, { st with toks := r' }) else .error .syntax
          | [] => .error .syntax
      else if isWordTok t then pName table t r st
      else .error .syntax
end

def parseFuel (toks : List String) : Nat := 4 * toks.length + 4

/-- the tokens of an expression, parsed: `parse_expr` and the "Unexpected trailing text" test -/
def parseToks (table : List NameInfo) (toks : List String) : Except CErr Expr :=
  match pChoice table (parseFuel toks) [] { toks := toks } with
  | .error e => .error e
  | .ok (r, st) => if st.toks.isEmpty then .ok r else .error .syntax

/-- `ContentMatch.parse` up to the AST: `none` is the empty expression (`ContentMatch.empty`) -/
def parseC (table : List NameInfo) (expr : String) : Except CErr (Option Expr) :=
  let toks := tokenize expr
  if toks.isEmpty then .ok none
  else
    match parseToks table toks with
    | .error e => .error e
    | .ok r => .ok (some r)

/-- the parsed expression read as a regular expression; the empty expression matches the empty sequence only -/
def contentRE : Option Expr → RE
  | none => RE.eps
  | some e => e.toRE

/-- `ContentMatch.parse` without the dead-end check: the compiled automaton -/
def compileDfa : Option Expr → Dfa
  | none => #[⟨true, []⟩]
  | some e => dfa (nfa e)

end PM
