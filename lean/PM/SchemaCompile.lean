/-
  PM/SchemaCompile.lean — model of the *construction* of a schema from its spec
  (prosemirror/model/schema.py: `Schema.__init__`, `NodeType.__init__` / `NodeType.compile`,
  `MarkType.__init__` / `MarkType.compile`, `init_attrs`, `Attribute`, `gather_marks`, and the
  properties `is_inline` / `is_leaf` / `is_atom` / `ContentMatch.inline_content`).

  `compileSchema spec dfas` produces the compiled tables of `PM/Basic.lean: Schema` that every other
  model takes as given (until now dumped from the running object), or the error the constructor
  raises.  The content automata are an argument (one per node type, in declaration order; their
  construction `ContentMatch.parse` is modelled elsewhere), everything else is computed from the spec
  as the code does it:

  * ids of node types and ranks of mark types = position in the (insertion-ordered) spec dicts;
  * `NodeType.compile`: top node (`spec.get("topNode") or "doc"`) missing, then `text` missing, then
    `text` with attributes — `ValueError`s, in this order, before anything else is looked at;
  * the loop over the node types, in order: a node name that is also a mark name (`ValueError`), then
    the content match (argument), `inline_content`, then the `marks` expression: `"_"` = every mark
    (`mark_set = None`); a non-empty string = `gather_marks` of its `split(" ")` words (`SyntaxError`
    for a word that finds nothing); `""`, or absent on a node without inline content = none;
    absent on a node with inline content = every mark;
  * the loop over the mark types: `excludes` absent = the mark itself; `""` = nothing; otherwise
    `gather_marks` (so `"_"` is not special-cased here: it goes through `gather_marks` like any word);
  * `gather_marks`: per word, a mark of that *name* if there is one (and then nothing else, even if
    the word is also a group name or `"_"`); otherwise every mark, in rank order, if the word is `"_"`
    or occurs in the mark's `group.split(" ")` (a falsy group = no groups); a word that finds nothing
    raises.  Duplicates are kept.
  * `is_leaf` is `content_match == ContentMatch.empty`, an *identity* test with the singleton that
    `ContentMatch.parse` returns exactly when the expression has no token, i.e. consists of
    white space only (`[t for t in re.findall(r"\w+|\W", s) if t.strip()]` is empty).  An expression
    such as `"text{0}"` compiles to an automaton of the same shape and is *not* a leaf.

  Truthiness: the boolean spec entries (`inline`, `atom`, `isolating`, `defining`, `code`) are
  carried as their truth value; `inclusive` as `spec.get("inclusive") is not False` (the readings of
  `SchemaInfo.dump`).  A spec dict cannot hold a name twice: `Spec.WF` states it; the model looks names
  up by first occurrence.
-/
import PM.Basic
import PM.Content
namespace PM.SchemaCompile
open PM

/-! ### The spec -/

/-- one entry of an `attrs` dict: `default = none` ⇔ the attribute spec has no `"default"` key
    (`some "null"` is an explicit default of `None`); values are canonical JSON text -/
structure AttrSpec where
  name    : String
  default : Option String := none
deriving Repr, Inhabited, DecidableEq

structure NodeSpec where
  name      : String
  content   : String := ""             -- `spec.get("content", "")`
  group     : Option String := none    -- `none` ⇔ no `"group"` key
  marks     : Option String := none    -- `spec.get("marks")`
  inline    : Bool := false
  atom      : Bool := false
  isolating : Bool := false
  defining  : Bool := false
  code      : Bool := false
  attrs     : List AttrSpec := []
  definingAsContext  : Bool := false
  definingForContent : Bool := false
deriving Repr, Inhabited, DecidableEq

structure MarkSpec where
  name      : String
  excludes  : Option String := none    -- `spec.get("excludes")`
  group     : Option String := none    -- `spec.get("group")`
  inclusive : Bool := true             -- `spec.get("inclusive") is not False`
  attrs     : List AttrSpec := []
deriving Repr, Inhabited, DecidableEq

/-- `SchemaSpec`: the two dicts in insertion order and `topNode` -/
structure Spec where
  nodes   : List NodeSpec
  marks   : List MarkSpec := []
  topNode : Option String := none
deriving Repr, Inhabited, DecidableEq

/-- what `Schema(spec)` raises -/
inductive CompileErr where
  | missingTop    -- ValueError "Schema is missing its top node type …"
  | missingText   -- ValueError "every schema needs a 'text' type"
  | textAttrs     -- ValueError "the text node type should not have attributes"
  | nameClash     -- ValueError "… can not be both a node and a mark"
  | unknownMark   -- SyntaxError "unknow mark type: …" (from `gather_marks`)
deriving Repr, Inhabited, DecidableEq

/-- the Python exception class: `true` = `ValueError`, `false` = `SyntaxError` -/
def CompileErr.isValueError : CompileErr → Bool
  | .unknownMark => false
  | _ => true

/-- representation invariant of the two spec dicts: no name occurs twice in either -/
def Spec.WF (spec : Spec) : Prop :=
  (spec.nodes.map (·.name)).Nodup ∧ (spec.marks.map (·.name)).Nodup

instance (spec : Spec) : Decidable spec.WF := by unfold Spec.WF; infer_instance

/-! ### Python string helpers -/

/-- `str.split(" ")` on the characters: split at every single space, empty pieces kept -/
def splitSp : List Char → List Char → List (List Char)
  | [], cur => [cur.reverse]
  | c :: cs, cur => if c = ' ' then cur.reverse :: splitSp cs [] else splitSp cs (c :: cur)

/-- `s.split(" ")` -/
def pySplit (s : String) : List String := (splitSp s.toList []).map String.ofList

/-- `str.isspace()` of one character (the characters `str.strip()` removes) -/
def isPySpace (c : Char) : Bool :=
  let n := c.toNat
  (9 ≤ n && n ≤ 13) || (28 ≤ n && n ≤ 32) || n == 0x85 || n == 0xA0 || n == 0x1680 ||
  (0x2000 ≤ n && n ≤ 0x200A) || n == 0x2028 || n == 0x2029 || n == 0x202F || n == 0x205F || n == 0x3000

/-- `TokenStream(s).next() is None`: the content expression has no token, so `ContentMatch.parse`
    returns the singleton `ContentMatch.empty` -/
def contentEmpty (s : String) : Bool := s.toList.all isPySpace

/-! ### Attributes (`init_attrs`, `Attribute`) -/

def initAttrs (attrs : List AttrSpec) : List AttrDecl :=
  attrs.map (fun a => ⟨a.name, a.default.isSome, a.default.getD "null"⟩)

/-- `NodeType.has_required_attrs` on the compiled table -/
def hasRequiredAttrs (attrs : List AttrDecl) : Bool := attrs.any (fun a => !a.hasDefault)

/-! ### Groups and `gather_marks` -/

/-- `NodeType.groups`: `spec["group"].split(" ") if "group" in spec else []` -/
def NodeSpec.groups (ns : NodeSpec) : List String :=
  match ns.group with
  | some g => pySplit g
  | none => []

/-- the groups `gather_marks` sees: `mark.spec.get("group") and … mark.spec["group"].split(" ")` -/
def MarkSpec.groups (ms : MarkSpec) : List String :=
  match ms.group with
  | some g => if g == "" then [] else pySplit g
  | none => []

/-- the marks one word of an expression stands for (one iteration of the outer loop of
    `gather_marks`); `[]` ⇔ `ok` stays falsy -/
def wordMarks (marks : List MarkSpec) (w : String) : List MarkTypeId :=
  match marks.findIdx? (fun m => m.name == w) with
  | some i => [i]
  | none => (List.range marks.length).filter (fun i =>
      w == "_" || (marks[i]?.map (fun m => m.groups.contains w)).getD false)

/-- `gather_marks(schema, words)` -/
def gatherMarks (marks : List MarkSpec) : List String → Except CompileErr (List MarkTypeId)
  | [] => .ok []
  | w :: ws =>
    match wordMarks marks w with
    | [] => .error .unknownMark
    | f :: fs =>
      match gatherMarks marks ws with
      | .error e => .error e
      | .ok rest => .ok (f :: fs ++ rest)

/-! ### Node types -/

/-- `ContentMatch.empty` -/
def emptyMatch : Dfa := #[⟨true, []⟩]

/-- `not is_block`, `is_block = not (spec.get("inline") or name == "text")` -/
def NodeSpec.isInline (ns : NodeSpec) : Bool := ns.inline || ns.name == "text"

/-- `ContentMatch.inline_content`: `bool(self.next) and self.next[0].type.is_inline` -/
def inlineContentOf (nodes : List NodeSpec) (d : Dfa) : Bool :=
  match d.edgesOf 0 with
  | [] => false
  | (t, _) :: _ => (nodes[t]?.map NodeSpec.isInline).getD false

/-- the `mark_set` branch of the node loop of `Schema.__init__` -/
def markSetOf (marks : List MarkSpec) (expr : Option String) (inlineContent : Bool) :
    Except CompileErr (Option (List MarkTypeId)) :=
  match expr with
  | some e =>
    if e == "_" then .ok none
    else if e != "" then
      match gatherMarks marks (pySplit e) with
      | .error err => .error err
      | .ok l => .ok (some l)
    else .ok (some [])
  | none => if !inlineContent then .ok (some []) else .ok none

/-- one iteration of the node loop of `Schema.__init__` (on top of `NodeType.__init__`) -/
def compileNode (spec : Spec) (dfas : List Dfa) (i : Nat) (ns : NodeSpec) : Except CompileErr NodeType :=
  if spec.marks.any (fun m => m.name == ns.name) then .error .nameClash
  else
    let leaf := contentEmpty ns.content
    let dfa := if leaf then emptyMatch else dfas.getD i emptyMatch
    let ic := inlineContentOf spec.nodes dfa
    match markSetOf spec.marks ns.marks ic with
    | .error e => .error e
    | .ok ms => .ok {
        name := ns.name
        isText := ns.name == "text"
        isInline := ns.isInline
        isLeaf := leaf
        isAtom := leaf || ns.atom
        inlineContent := ic
        isolating := ns.isolating
        defining := ns.defining
        code := ns.code
        dfa := dfa
        markSet := ms
        attrs := initAttrs ns.attrs
        definingAsContext := ns.definingAsContext
        definingForContent := ns.definingForContent }

/-! ### Mark types -/

/-- one iteration of the mark loop of `Schema.__init__` (on top of `MarkType.__init__`; `i` = rank) -/
def compileMark (spec : Spec) (i : Nat) (ms : MarkSpec) : Except CompileErr MarkType :=
  let ex : Except CompileErr (List MarkTypeId) :=
    match ms.excludes with
    | none => .ok [i]
    | some e => if e == "" then .ok [] else gatherMarks spec.marks (pySplit e)
  match ex with
  | .error e => .error e
  | .ok l => .ok { name := ms.name, excluded := l, inclusive := ms.inclusive, attrs := initAttrs ms.attrs }

/-! ### The constructor -/

/-- run `f i x` over a list with running index, stopping at the first error (a Python loop that raises) -/
def seqIdx {α β ε} (f : Nat → α → Except ε β) : Nat → List α → Except ε (List β)
  | _, [] => .ok []
  | i, x :: xs =>
    match f i x with
    | .error e => .error e
    | .ok y =>
      match seqIdx f (i + 1) xs with
      | .error e => .error e
      | .ok ys => .ok (y :: ys)

/-- `spec.get("topNode") or "doc"` -/
def Spec.topName (spec : Spec) : String :=
  match spec.topNode with
  | some t => if t == "" then "doc" else t
  | none => "doc"

/-- `Schema(spec)`, given the content automata of the node types in declaration order -/
def compileSchema (spec : Spec) (dfas : List Dfa) : Except CompileErr Schema :=
  match spec.nodes.findIdx? (fun n => n.name == spec.topName) with
  | none => .error .missingTop
  | some top =>
    match spec.nodes.findIdx? (fun n => n.name == "text") with
    | none => .error .missingText
    | some textTy =>
      if (spec.nodes[textTy]?.map (fun n => n.attrs.isEmpty)).getD true = false then .error .textAttrs
      else
        match seqIdx (compileNode spec dfas) 0 spec.nodes with
        | .error e => .error e
        | .ok nodes =>
          match seqIdx (compileMark spec) 0 spec.marks with
          | .error e => .error e
          | .ok marks => .ok { nodes := nodes.toArray, marks := marks.toArray, top := top, textTy := textTy }

end PM.SchemaCompile
