/-
  PM/FromDom.lean — model of the pure logic of the HTML importer (model/from_dom.py).

  Part A: `ParseContext.matches_context` (context expressions of parse rules).
  Part B: the node-placement core of `ParseContext` / `NodeContext` (find_place, insert_node, enter,
          enter_inner, close_extra, sync, finish, pending / active / stash marks).

  lxml, cssselect and `re` stay outside: the DOM walk, rule matching and whitespace handling decide
  *which* calls into this core happen; the core itself is what is modelled here.

  Node type names and groups are not part of `PM.Schema` (only `name` is); the group table is passed
  separately as `G : TypeId → List String` (`NodeType.groups`, i.e. `spec["group"].split(" ")`).
-/
import PM.Basic
import PM.Marks
import PM.Content
import PM.Fragment
import PM.Step
import PM.Fill
namespace PM.FromDom

/-! ## Part A — context expressions -/

/-- `\s` of Python's `re` on `str` patterns (= `str.isspace`) -/
def isPySpace (c : Char) : Bool :=
  let n := c.toNat
  (0x9 ≤ n && n ≤ 0xD) || (0x1C ≤ n && n ≤ 0x20) || n == 0x85 || n == 0xA0 || n == 0x1680 ||
  (0x2000 ≤ n && n ≤ 0x200A) || n == 0x2028 || n == 0x2029 || n == 0x202F || n == 0x205F || n == 0x3000

/-- `str.split(sep)` for a one-character separator (always at least one piece) -/
def splitOn (sep : Char) : List Char → List (List Char)
  | [] => [[]]
  | c :: cs =>
    if c == sep then [] :: splitOn sep cs
    else match splitOn sep cs with
      | h :: t => (c :: h) :: t
      | [] => [[c]]

def lstrip (s : List Char) : List Char := s.dropWhile isPySpace
def rstrip (s : List Char) : List Char := (s.reverse.dropWhile isPySpace).reverse

/-- pieces after the first one: whitespace before the piece belongs to the preceding `|` match, whitespace
    after it to the following one (if there is one) -/
def stripRest : List (List Char) → List (List Char)
  | [] => []
  | [last] => [lstrip last]
  | m :: more => rstrip (lstrip m) :: stripRest more

/-- `re.split(r"\s*\|\s*", context)` (and `[context]` when there is no `|`): the regex is leftmost and
    greedy, so every `|` swallows the whole whitespace run on either side -/
def alternatives (ctx : List Char) : List (List Char) :=
  match splitOn '|' ctx with
  | [] => [ctx]
  | [one] => [one]
  | first :: rest => rstrip first :: stripRest rest

/-- `next.name == part or part in next.groups` -/
def nameOk (S : Schema) (G : TypeId → List String) (part : List Char) (t : TypeId) : Bool :=
  (S.nodeType t).name.toList == part || (G t).any (fun g => g.toList == part)

/-- the `while depth >= min_depth: if match(i - 1, depth): return True; depth -= 1` loop of a `//`
    wildcard.  `anc` = the ancestors still visible, innermost first (`depth >= min_depth` ⇔ `anc ≠ []`):
    the wildcard tries to continue at the current ancestor, then one further out, … — never *below* the
    outermost visible one, so at least one ancestor must remain for what follows. -/
def wildLoop (f : List TypeId → Bool) : List TypeId → Bool
  | [] => false
  | t :: rest => f (t :: rest) || wildLoop f rest

/-- the local function `match(i, depth)`.  Instead of the index `i` the parts still to be matched are
    passed reversed (`parts[i], parts[i-1], …, parts[0]`); `isLast` ⇔ `i == len(parts) - 1`, and
    `rest = []` ⇔ `i == 0`.  Instead of `depth` the visible ancestors from `depth` outwards are passed
    (innermost first; `next is None` ⇔ none left). -/
def matchRev (ok : List Char → TypeId → Bool) : (isLast : Bool) → List (List Char) → List TypeId → Bool
  | _, [], _ => true
  | isLast, part :: rest, anc =>
    if part.isEmpty then
      if isLast || rest.isEmpty then matchRev ok false rest anc
      else wildLoop (matchRev ok false rest) anc
    else
      match anc with
      | [] => false
      | t :: anc' => ok part t && matchRev ok false rest anc'

/-- one `|`-free expression: `parts = context.split("/")`, `match(len(parts) - 1, self.open)` -/
def matchesAlt (ok : List Char → TypeId → Bool) (ancInnerFirst : List TypeId) (alt : List Char) : Bool :=
  matchRev ok true (splitOn '/' alt).reverse ancInnerFirst

/-- `ParseContext.matches_context(context)`; `stack` = the visible ancestors, outermost first
    (see `visibleStack`) -/
def matchesContext (S : Schema) (G : TypeId → List String) (stack : List TypeId) (ctx : List Char) : Bool :=
  (alternatives ctx).any (matchesAlt (nameOk S G) stack.reverse)

/-- which ancestors `match` can see, outermost first: the node types of the `options.context` position
    (`option.node(0) … option.node(option.depth)`), then the root context `nodes[0]` — only when
    `use_root = not is_open and (option is None or option.parent.type == nodes[0].type)` —, then the open
    contexts `nodes[1] … nodes[open]` (contexts above `open` are not looked at).
    `nodeTypes` = the `type` fields of `self.nodes` (only `nodes[0]` can lack one). -/
def visibleStack (ctxTypes : Option (List TypeId)) (isOpen : Bool) (nodeTypes : List (Option TypeId))
    (open_ : Nat) : List TypeId :=
  let root := nodeTypes.head?.join
  let useRoot := !isOpen && (match ctxTypes with
    | none => true
    | some l => l.getLast? == root)
  (ctxTypes.getD []) ++ (if useRoot then root.toList else []) ++
    ((nodeTypes.drop 1).take open_).filterMap id

end PM.FromDom
