/-
  PM/FromDom.lean — model of the pure logic of the HTML importer (model/from_dom.py).

  Part A: `ParseContext.matches_context` (context expressions of parse rules).
  Part B: the node-placement core of `ParseContext` / `NodeContext` (find_place, insert_node, enter,
          enter_inner, close_extra, sync, finish, pending / active / stash marks).

  lxml, cssselect and `re` stay outside: the DOM walk, rule matching and whitespace handling decide
  *which* calls into this core happen; the core itself is what is modelled here.

  Node type names and groups are not part of `PM.Schema` (only `name` is); the group table is passed
  separately as `G : TypeId → List String` (`NodeType.groups`, i.e. `spec["group"].split(" ")`).
-/
import PM.Basic
import PM.Marks
import PM.Content
import PM.Fragment
import PM.Step
import PM.Fill
namespace PM.FromDom

/-! ## Part A — context expressions -/

/-- `\s` of Python's `re` on `str` patterns (= `str.isspace`) -/
def isPySpace (c : Char) : Bool :=
  let n := c.toNat
  (0x9 ≤ n && n ≤ 0xD) || (0x1C ≤ n && n ≤ 0x20) || n == 0x85 || n == 0xA0 || n == 0x1680 ||
  (0x2000 ≤ n && n ≤ 0x200A) || n == 0x2028 || n == 0x2029 || n == 0x202F || n == 0x205F || n == 0x3000

/-- `str.split(sep)` for a one-character separator (always at least one piece) -/
def splitOn (sep : Char) : List Char → List (List Char)
  | [] => [[]]
  | c :: cs =>
    if c == sep then [] :: splitOn sep cs
    else match splitOn sep cs with
      | h :: t => (c :: h) :: t
      | [] => [[c]]

def lstrip (s : List Char) : List Char := s.dropWhile isPySpace
def rstrip (s : List Char) : List Char := (s.reverse.dropWhile isPySpace).reverse

/-- pieces after the first one: whitespace before the piece belongs to the preceding `|` match, whitespace
    after it to the following one (if there is one) -/
def stripRest : List (List Char) → List (List Char)
  | [] => []
  | [last] => [lstrip last]
  | m :: more => rstrip (lstrip m) :: stripRest more

/-- `re.split(r"\s*\|\s*", context)` (and `[context]` when there is no `|`): the regex is leftmost and
    greedy, so every `|` swallows the whole whitespace run on either side -/
def alternatives (ctx : List Char) : List (List Char) :=
  match splitOn '|' ctx with
  | [] => [ctx]
  | [one] => [one]
  | first :: rest => rstrip first :: stripRest rest

/-- `next.name == part or part in next.groups` -/
def nameOk (S : Schema) (G : TypeId → List String) (part : List Char) (t : TypeId) : Bool :=
  (S.nodeType t).name.toList == part || (G t).any (fun g => g.toList == part)

/-- the `while depth >= min_depth: if match(i - 1, depth): return True; depth -= 1` loop of a `//`
    wildcard.  `anc` = the ancestors still visible, innermost first (`depth >= min_depth` ⇔ `anc ≠ []`):
    the wildcard tries to continue at the current ancestor, then one further out, … — never *below* the
    outermost visible one, so at least one ancestor must remain for what follows. -/
def wildLoop (f : List TypeId → Bool) : List TypeId → Bool
  | [] => false
  | t :: rest => f (t :: rest) || wildLoop f rest

/-- the local function `match(i, depth)`.  Instead of the index `i` the parts still to be matched are
    passed reversed (`parts[i], parts[i-1], …, parts[0]`); `isLast` ⇔ `i == len(parts) - 1`, and
    `rest = []` ⇔ `i == 0`.  Instead of `depth` the visible ancestors from `depth` outwards are passed
    (innermost first; `next is None` ⇔ none left). -/
def matchRev (ok : List Char → TypeId → Bool) : (isLast : Bool) → List (List Char) → List TypeId → Bool
  | _, [], _ => true
  | isLast, part :: rest, anc =>
    if part.isEmpty then
      if isLast || rest.isEmpty then matchRev ok false rest anc
      else wildLoop (matchRev ok false rest) anc
    else
      match anc with
      | [] => false
      | t :: anc' => ok part t && matchRev ok false rest anc'

/-- one `|`-free expression: `parts = context.split("/")`, `match(len(parts) - 1, self.open)` -/
def matchesAlt (ok : List Char → TypeId → Bool) (ancInnerFirst : List TypeId) (alt : List Char) : Bool :=
  matchRev ok true (splitOn '/' alt).reverse ancInnerFirst

/-- `ParseContext.matches_context(context)`; `stack` = the visible ancestors, outermost first
    (see `visibleStack`) -/
def matchesContext (S : Schema) (G : TypeId → List String) (stack : List TypeId) (ctx : List Char) : Bool :=
  (alternatives ctx).any (matchesAlt (nameOk S G) stack.reverse)

/-- which ancestors `match` can see, outermost first: the node types of the `options.context` position
    (`option.node(0) … option.node(option.depth)`), then the root context `nodes[0]` — only when
    `use_root = not is_open and (option is None or option.parent.type == nodes[0].type)` —, then the open
    contexts `nodes[1] … nodes[open]` (contexts above `open` are not looked at).
    `nodeTypes` = the `type` fields of `self.nodes` (only `nodes[0]` can lack one). -/
def visibleStack (ctxTypes : Option (List TypeId)) (isOpen : Bool) (nodeTypes : List (Option TypeId))
    (open_ : Nat) : List TypeId :=
  let root := nodeTypes.head?.join
  let useRoot := !isOpen && (match ctxTypes with
    | none => true
    | some l => l.getLast? == root)
  (ctxTypes.getD []) ++ (if useRoot then root.toList else []) ++
    ((nodeTypes.drop 1).take open_).filterMap id

/-! ## Part B — the node-placement core

  State of a `ParseContext`: the list `nodes` of `NodeContext`s (index 0 = the root context, as in the
  code), `open`, `needs_block`, `is_open`, `options.top_open`.  `options.context`, `options.top_node`,
  `options.top_match` and `options.find_positions` are not modelled (absent in `from_html`,
  `DOMParser.parse(dom)` and `parse_slice(dom)` without options).

  * A `match` is a state of the content automaton of the context's own type (`S.dfa ty`).
  * Pending marks carry an object-identity tag: `remove_pending_mark` looks its argument up in
    `pending_marks` with `list.index`, and `Mark` has no `__eq__`, so this lookup is by identity while
    everything else (`eq`, `is_in_set`, `remove_from_set`, `add_to_set`) is by value.
  * Errors: `.internal` where the code dies with AttributeError / IndexError / RecursionError (a missing
    filling at `finish`, a node type that cannot be filled), `.valueError` for a missing required attribute.
-/

/-- `preserve_whitespace`: `None`, `False`, `True`, `"full"` -/
inductive WS where
  | unset | off | on | full
deriving DecidableEq, Repr, Inhabited

/-- the option bits `OPT_PRESERVE_WS` (1), `OPT_PRESERVE_WS_FULL` (2), `OPT_OPEN_LEFT` (4) -/
structure Opts where
  preserveWs : Bool := false
  full : Bool := false
  openLeft : Bool := false
deriving DecidableEq, Repr, Inhabited

/-- `ws_options_for(type, preserve_whitespace, base)`; `pre` ⇔ `type is not None and type.whitespace == "pre"` -/
def wsOptionsFor (pre : Bool) (pw : WS) (base : Opts) : Opts :=
  match pw with
  | .off => {}
  | .on => { preserveWs := true }
  | .full => { preserveWs := true, full := true }
  | .unset => if pre then { preserveWs := true, full := true } else { base with openLeft := false }

abbrev TMark := Nat × Mark

structure NodeCtx where
  ty : Option TypeId
  attrs : Option Attrs        -- as given (`None` or the keys the rule supplied); computed at `finish`
  marks : Marks
  pending : List TMark
  active : Marks := []
  stash : Marks := []
  solid : Bool
  mtch : Option Nat
  content : List Node := []
  opts : Opts
  uid : Nat := 0              -- object identity of the NodeContext (the DOM walk keeps references: `top`, `start_in`)
  activeT : List TMark := []  -- `active` with the object identities (same marks, same order); read by the DOM walk only
  stashT : List TMark := []   -- `stash` with the object identities
deriving Repr, Inhabited

/-- `NodeContext.__init__` with `match = None` passed in -/
def NodeCtx.new (ty : Option TypeId) (attrs : Option Attrs) (marks : Marks) (pending : List TMark)
    (solid : Bool) (opts : Opts) : NodeCtx :=
  { ty := ty, attrs := attrs, marks := marks, pending := pending, solid := solid,
    mtch := if opts.openLeft || ty.isNone then none else some 0, opts := opts }

structure PState where
  nodes : List NodeCtx
  open_ : Nat := 0
  needsBlock : Bool := false
  isOpen : Bool
  topOpen : Bool := false
  fresh : Nat := 1            -- the next unused `NodeCtx.uid` (the root context has 0)
deriving Repr, Inhabited

/-- `ParseContext.__init__` (no `top_node`): `parse` has `is_open = False`, `parse_slice` `True` -/
def PState.init (S : Schema) (isOpen : Bool) (pw : WS) (topOpen : Bool) : PState :=
  let opts := { wsOptionsFor false pw {} with openLeft := isOpen }
  { nodes := [NodeCtx.new (if isOpen then none else some S.top) none [] [] true opts],
    isOpen := isOpen, topOpen := topOpen }

/-! ### marks -/

/-- `Mark.add_to_set` on identity-tagged marks (all comparisons by value, the objects are kept) -/
def tAddToSetAux (S : Schema) (m : TMark) (set : List TMark) :
    (rest : List TMark) → (i : Nat) → (copy : Option (List TMark)) → (placed : Bool) → List TMark
  | [], _, copy, placed =>
    let c := copy.getD set
    if placed then c else c ++ [m]
  | other :: rest, i, copy, placed =>
    if m.2 = other.2 then set
    else if S.excludes m.2.ty other.2.ty then
      tAddToSetAux S m set rest (i + 1) (some (copy.getD (set.take i))) placed
    else if S.excludes other.2.ty m.2.ty then set
    else
      if !placed && other.2.ty > m.2.ty then
        tAddToSetAux S m set rest (i + 1) (some (copy.getD (set.take i) ++ [m] ++ [other])) true
      else
        tAddToSetAux S m set rest (i + 1) (copy.map (· ++ [other])) placed

def tAddToSet (S : Schema) (m : TMark) (set : List TMark) : List TMark :=
  tAddToSetAux S m set set 0 none false

/-- `mark.remove_from_set(pending)` (by value) -/
def tRemoveFromSet (m : Mark) (set : List TMark) : List TMark := set.filter (fun o => o.2 != m)

/-- `mark_may_apply(mark_type, node_type)`: some node type that allows the mark has, somewhere in its
    content automaton, an edge labelled with the node type.  (`NodeType.dfa` lists exactly the states
    reachable from the start state, which is what `scan` visits.) -/
def markMayApply (S : Schema) (mt : MarkTypeId) (nt : TypeId) : Bool :=
  S.nodes.toList.any (fun p => p.allowsMarkType mt && p.dfa.toList.any (fun st => st.edges.any (fun e => e.1 == nt)))

/-- `NodeContext.apply_pending(next_type)`: the loop runs over the pending list as it was on entry -/
def NodeCtx.applyPending (S : Schema) (cx : NodeCtx) (nextTy : TypeId) : NodeCtx :=
  cx.pending.foldl (fun cx m =>
    let may := match cx.ty with
      | some t => (S.nodeType t).allowsMarkType m.2.ty
      | none => markMayApply S m.2.ty nextTy
    if may && !m.2.isInSet cx.active then
      { cx with active := m.2.addToSet S cx.active, pending := tRemoveFromSet m.2 cx.pending,
                activeT := tAddToSet S m cx.activeT }
    else cx) cx

/-- `find_same_mark_in_set(mark, pending)` -/
def findSameMark (m : Mark) (set : List TMark) : Option Mark := (set.find? (fun o => o.2 == m)).map (·.2)

/-- `NodeContext.pop_from_stash_mark(mark)`: the reversed loop without `break` keeps the *first* equal
    stash entry; `list.remove` then deletes that entry -/
def NodeCtx.popFromStash (cx : NodeCtx) (m : Mark) : NodeCtx × Option Mark :=
  match cx.stash.find? (· == m) with
  | some f => ({ cx with stash := cx.stash.erase f,
                         stashT := match cx.stashT.find? (·.2 == m) with
                           | some ft => cx.stashT.erase ft
                           | none => cx.stashT }, some f)
  | none => (cx, none)

/-! ### filling -/

def mapRes {α β : Type} (f : α → Res β) : List α → Res (List β)
  | [] => .ok []
  | a :: as =>
    match f a with
    | .error e => .error e
    | .ok b =>
      match mapRes f as with
      | .error e => .error e
      | .ok bs => .ok (b :: bs)

/-- a node of type `t`; leaf-ness is in the constructor (see PM/Basic.lean) -/
def mkNode (S : Schema) (t : TypeId) (attrs : Attrs) (marks : Marks) (kids : List Node) : Node :=
  if (S.nodeType t).isLeaf then .leaf t attrs marks else .elem t attrs marks kids

/-- `NodeType.create_and_fill()` without arguments, as `fill_before` calls it on every filler type.
    `None` answers (no filling to a valid end) make the caller crash on the `None` child, and a type that
    needs itself as filler recurses until `RecursionError`: both `.internal`.  The recursion is through
    distinct nested types unless a type repeats, so `fuel` = number of node types + 1 is exact. -/
def createAndFill (S : Schema) : (fuel : Nat) → TypeId → Res Node
  | 0, _ => .error .internal
  | fuel + 1, t =>
    match computeAttrs (S.nodeType t).attrs [] with
    | .error e => .error e
    | .ok attrs =>
      match fillBefore (S.dfa t) S.generatable 0 [] true with
      | none => .error .internal
      | some tys =>
        match mapRes (createAndFill S fuel) tys with
        | .error e => .error e
        | .ok kids => .ok (mkNode S t attrs [] kids)

/-- the nodes of `match.fill_before(after, to_end)` at state `q` of `d`; `.ok none` = no filling -/
def fillNodes (S : Schema) (d : Dfa) (q : Nat) (after : List TypeId) (toEnd : Bool) : Res (Option (List Node)) :=
  match fillBefore d S.generatable q after toEnd with
  | none => .ok none
  | some tys => (mapRes (createAndFill S (S.nodes.size + 1)) tys).map some

/-! ### NodeContext.find_wrapping / finish -/

/-- `NodeContext.find_wrapping(node)` (only the node's type is looked at); may set `match` -/
def NodeCtx.findWrapping (S : Schema) (cx : NodeCtx) (nodeTy : TypeId) : Res (NodeCtx × Option (List TypeId)) :=
  match cx.mtch with
  | some q =>
    match cx.ty with
    | some t => .ok (cx, PM.findWrapping S (S.dfa t) q nodeTy)
    | none => .ok (cx, none)      -- unreachable: a context without type never has a match
  | none =>
    match cx.ty with
    | none => .ok (cx, some [])
    | some t =>
      match fillNodes S (S.dfa t) 0 [nodeTy] false with
      | .error e => .error e
      | .ok (some fill) =>
        match (S.dfa t).run 0 (S.types fill) with
        | some q => .ok ({ cx with mtch := some q }, PM.findWrapping S (S.dfa t) q nodeTy)
        | none => .ok (cx, none)
      | .ok none =>
        match PM.findWrapping S (S.dfa t) 0 nodeTy with
        | some wrap => .ok ({ cx with mtch := some 0 }, some wrap)
        | none => .ok (cx, none)

/-- the units `[ \t\r\n\u000c]` -/
def isHtmlSpace (u : Nat) : Bool := u == 0x20 || u == 0x9 || u == 0xD || u == 0xA || u == 0xC

def stripTrailingSpace (s : List Nat) : List Nat := (s.reverse.dropWhile isHtmlSpace).reverse

/-- the trailing-whitespace strip at the start of `NodeContext.finish` -/
def stripLast (content : List Node) : List Node :=
  match content.getLast? with
  | some (.text s m) =>
    let s' := stripTrailingSpace s
    if s'.length == s.length then content
    else if s'.isEmpty then content.dropLast
    else content.dropLast ++ [.text s' m]
  | _ => content

/-- `NodeContext.finish(open_end)`: a node, or (for the type-less root of `parse_slice`) a fragment,
    here returned as the child list -/
def NodeCtx.finishContent (S : Schema) (cx : NodeCtx) (openEnd : Bool) : Res (List Node) :=
  let content := fromArray (if cx.opts.preserveWs then cx.content else stripLast cx.content)
  match openEnd, cx.mtch, cx.ty with
  | false, some q, some t =>
    match fillNodes S (S.dfa t) q [] true with
    | .error e => .error e
    | .ok none => .error .internal
    | .ok (some fill) => .ok (fappend content fill)
  | _, _, _ => .ok content

def NodeCtx.finishNode (S : Schema) (cx : NodeCtx) (openEnd : Bool) (t : TypeId) : Res Node :=
  match cx.finishContent S openEnd with
  | .error e => .error e
  | .ok content =>
    match computeAttrs (S.nodeType t).attrs (cx.attrs.getD []) with
    | .error e => .error e
    | .ok attrs => .ok (mkNode S t attrs (setFrom cx.marks) content)

/-! ### ParseContext -/

/-- append a node to the content of the last context of the list -/
def appendToLast (nodes : List NodeCtx) (n : Node) : List NodeCtx :=
  match nodes.getLast? with
  | some cx => nodes.dropLast ++ [{ cx with content := cx.content ++ [n] }]
  | none => nodes

/-- `close_extra(open_end)`: finish the contexts above `open`, innermost first, each into its parent -/
def closeExtraLoop (S : Schema) (openEnd : Bool) : (k : Nat) → List NodeCtx → Res (List NodeCtx)
  | 0, nodes => .ok nodes
  | k + 1, nodes =>
    match nodes.getLast?, nodes.dropLast with
    | some cx, rest =>
      match cx.ty with
      | none => .error .internal      -- unreachable: only the root can lack a type
      | some t =>
        match cx.finishNode S openEnd t with
        | .error e => .error e
        | .ok n => closeExtraLoop S openEnd k (appendToLast rest n)
    | none, _ => .error .internal

def PState.closeExtra (S : Schema) (st : PState) (openEnd : Bool := false) : Res PState :=
  (closeExtraLoop S openEnd (st.nodes.length - 1 - st.open_) st.nodes).map (fun ns => { st with nodes := ns })

/-- update the context at `open` -/
def PState.setTop (st : PState) (cx : NodeCtx) : PState := { st with nodes := st.nodes.set st.open_ cx }

/-- `enter_inner(type, attrs, solid, preserve_ws)` -/
def PState.enterInner (S : Schema) (wsPre : TypeId → Bool) (st : PState) (ty : TypeId) (attrs : Option Attrs)
    (solid : Bool) (pw : WS) : Res PState :=
  match st.closeExtra S with
  | .error e => .error e
  | .ok st =>
    match st.nodes[st.open_]? with
    | none => .error .internal
    | some top =>
      let top := top.applyPending S ty
      let top := match top.mtch, top.ty with
        | some q, some t => { top with mtch := (S.dfa t).matchType q ty }
        | _, _ => top
      let opts := wsOptionsFor (wsPre ty) pw top.opts
      let opts := if top.opts.openLeft && top.content.isEmpty then { opts with openLeft := true } else opts
      let st := st.setTop top
      .ok { st with nodes := st.nodes ++ [{ NodeCtx.new (some ty) attrs top.active top.pending solid opts with uid := st.fresh }],
                    open_ := st.open_ + 1, fresh := st.fresh + 1 }

/-- the `while depth >= 0` loop of `find_place`; `n` = depth + 1.  A route is replaced only by a strictly
    shorter one; the walk goes on below an empty route (the `break` the code has there is dead) and
    stops after the first solid context. -/
def findPlaceLoop (S : Schema) (ty : TypeId) :
    (n : Nat) → List NodeCtx → Option (List TypeId) → Option Nat → Res (List NodeCtx × Option (List TypeId) × Option Nat)
  | 0, nodes, route, sync => .ok (nodes, route, sync)
  | d + 1, nodes, route, sync =>
    match nodes[d]? with
    | none => .error .internal
    | some cx =>
      match cx.findWrapping S ty with
      | .error e => .error e
      | .ok (cx', found) =>
        let nodes' := nodes.set d cx'
        let better := match found, route with
          | some f, some r => decide (r.length > f.length)
          | some _, none => true
          | none, _ => false
        let route' := if better then found else route
        let sync' := if better then some d else sync
        if cx'.solid then .ok (nodes', route', sync') else findPlaceLoop S ty d nodes' route' sync'

def enterRoute (S : Schema) (wsPre : TypeId → Bool) : List TypeId → PState → Res PState
  | [], st => .ok st
  | r :: rs, st =>
    match st.enterInner S wsPre r none false .unset with
    | .error e => .error e
    | .ok st' => enterRoute S wsPre rs st'

/-- `find_place(node)` -/
def PState.findPlace (S : Schema) (wsPre : TypeId → Bool) (st : PState) (ty : TypeId) : Res (PState × Bool) :=
  match findPlaceLoop S ty (st.open_ + 1) st.nodes none none with
  | .error e => .error e
  | .ok (nodes, route, sync) =>
    let st := { st with nodes := nodes }
    match route with
    | none => .ok (st, false)
    | some route =>
      let st := match sync with
        | some d => { st with open_ := d }
        | none => st
      (enterRoute S wsPre route st).map (fun s => (s, true))

/-- `textblock_from_context()` without `options.context`: the first textblock type whose `default_attrs`
    is truthy — a non-empty dict of defaults (an attribute-less textblock such as `paragraph` has `{}`,
    which is falsy in Python, so it is skipped) -/
def textblockFromContext (S : Schema) : Option TypeId :=
  (List.range S.nodes.size).find? (fun t =>
    let nt := S.nodeType t
    !nt.isInline && nt.inlineContent && !nt.attrs.isEmpty && nt.attrs.all (·.hasDefault))

/-- `insert_node(node)` -/
def PState.insertNode (S : Schema) (wsPre : TypeId → Bool) (st : PState) (node : Node) : Res (PState × Bool) :=
  let ty := S.tyOf node
  let pre : Res PState :=
    if (S.nodeType ty).isInline && st.needsBlock && ((st.nodes[st.open_]?.map (·.ty)).getD none).isNone then
      match textblockFromContext S with
      | some b => st.enterInner S wsPre b none false .unset
      | none => .ok st
    else .ok st
  match pre with
  | .error e => .error e
  | .ok st =>
    match st.findPlace S wsPre ty with
    | .error e => .error e
    | .ok (st, false) => .ok (st, false)
    | .ok (st, true) =>
      match st.closeExtra S with
      | .error e => .error e
      | .ok st =>
        match st.nodes[st.open_]? with
        | none => .error .internal
        | some top =>
          let top := top.applyPending S ty
          let top := match top.mtch, top.ty with
            | some q, some t => { top with mtch := (S.dfa t).matchType q ty }
            | _, _ => top
          let marks := node.marks.foldl (fun acc m =>
            if (match top.ty with
                | none => true
                | some t => (S.nodeType t).allowsMarkType m.ty) then m.addToSet S acc else acc) top.active
          .ok (st.setTop { top with content := top.content ++ [node.withMarks marks] }, true)

/-- `enter(type, attrs, preserve_ws)`; `type.create(attrs)` raises when a required attribute is missing -/
def PState.enter (S : Schema) (wsPre : TypeId → Bool) (st : PState) (ty : TypeId) (attrs : Option Attrs) (pw : WS) :
    Res (PState × Bool) :=
  match computeAttrs (S.nodeType ty).attrs (attrs.getD []) with
  | .error e => .error e
  | .ok _ =>
    match st.findPlace S wsPre ty with
    | .error e => .error e
    | .ok (st, false) => .ok (st, false)
    | .ok (st, true) => (st.enterInner S wsPre ty attrs true pw).map (fun s => (s, true))

/-- `sync(to)`; `to` = index of the context in `nodes` (`none`: not in the list any more) -/
def PState.sync (st : PState) (to : Option Nat) : PState × Bool :=
  match to with
  | some k => if k ≤ st.open_ then ({ st with open_ := k }, true) else (st, false)
  | none => (st, false)

/-- `add_pending_mark(mark)` -/
def PState.addPendingMark (S : Schema) (st : PState) (m : TMark) : Res PState :=
  match st.nodes[st.open_]? with
  | none => .error .internal
  | some top =>
    let top := match findSameMark m.2 top.pending with
      | some f => { top with stash := top.stash ++ [f], stashT := top.stashT ++ (top.pending.find? (fun (o : TMark) => o.2 == m.2)).toList }
      | none => top
    .ok (st.setTop { top with pending := tAddToSet S m top.pending })

/-- one level of `remove_pending_mark` -/
def NodeCtx.removePending (S : Schema) (level : NodeCtx) (m : TMark) : NodeCtx :=
  if level.pending.any (fun o => o.1 == m.1) then
    { level with pending := tRemoveFromSet m.2 level.pending }
  else
    let level := { level with active := m.2.removeFromSet level.active, activeT := tRemoveFromSet m.2 level.activeT }
    let smT := level.stashT.find? (·.2 == m.2)
    match level.popFromStash m.2 with
    | (level, some sm) =>
      match level.ty with
      | some t =>
        if (S.nodeType t).allowsMarkType sm.ty then
          { level with active := sm.addToSet S level.active,
                       activeT := match smT with
                         | some x => tAddToSet S x level.activeT
                         | none => level.activeT }
        else level
      | none => level
    | (level, none) => level

/-- the `while depth >= 0` loop of `remove_pending_mark`; `n` = depth + 1 -/
def removePendingLoop (S : Schema) (m : TMark) (upto : Option Nat) : (n : Nat) → List NodeCtx → Res (List NodeCtx)
  | 0, nodes => .ok nodes
  | d + 1, nodes =>
    match nodes[d]? with
    | none => .error .internal
    | some level =>
      let nodes' := nodes.set d (level.removePending S m)
      if upto == some d then .ok nodes' else removePendingLoop S m upto d nodes'

/-- `remove_pending_mark(mark, upto)`; `upto` as for `sync` -/
def PState.removePendingMark (S : Schema) (st : PState) (m : TMark) (upto : Option Nat) : Res PState :=
  (removePendingLoop S m upto (st.open_ + 1) st.nodes).map (fun ns => { st with nodes := ns })

/-- `ParseContext.finish()`: the document (a node), or the child list of the fragment for `parse_slice` -/
def PState.finish (S : Schema) (st : PState) : Res (Option Node × List Node) :=
  match ({ st with open_ := 0 } : PState).closeExtra S st.isOpen with
  | .error e => .error e
  | .ok st =>
    match st.nodes.head? with
    | none => .error .internal
    | some root =>
      match root.ty with
      | some t => (root.finishNode S (st.isOpen || st.topOpen) t).map (fun n => (some n, []))
      | none => (root.finishContent S (st.isOpen || st.topOpen)).map (fun c => (none, c))

/-! ### events: the calls the DOM walk makes into the placement core -/

inductive Event where
  | insertNode (n : Node)
  | enter (ty : TypeId) (attrs : Option Attrs) (pw : WS)
  | findPlace (n : Node)
  | addPending (m : TMark)
  | removePending (m : TMark) (upto : Option Nat)
  | sync (to : Option Nat)
  | setOpen (v : Nat)
  | setNeedsBlock (b : Bool)
  | closeExtra (openEnd : Bool)
deriving Repr, Inhabited

/-- one event; the `Option Bool` is what the call returns to the DOM walk -/
def PState.step (S : Schema) (wsPre : TypeId → Bool) (st : PState) : Event → Res (PState × Option Bool)
  | .insertNode n => (st.insertNode S wsPre n).map (fun (s, b) => (s, some b))
  | .enter ty attrs pw => (st.enter S wsPre ty attrs pw).map (fun (s, b) => (s, some b))
  | .findPlace n => (st.findPlace S wsPre (S.tyOf n)).map (fun (s, b) => (s, some b))
  | .addPending m => (st.addPendingMark S m).map (fun s => (s, none))
  | .removePending m upto => (st.removePendingMark S m upto).map (fun s => (s, none))
  | .sync to => let (s, b) := st.sync to; .ok (s, some b)
  | .setOpen v => .ok ({ st with open_ := v }, none)
  | .setNeedsBlock b => .ok ({ st with needsBlock := b }, none)
  | .closeExtra oe => (st.closeExtra S oe).map (fun s => (s, none))

def PState.run (S : Schema) (wsPre : TypeId → Bool) : PState → List Event → Res PState
  | st, [] => .ok st
  | st, e :: es =>
    match st.step S wsPre e with
    | .error err => .error err
    | .ok (st', _) => PState.run S wsPre st' es

/-! ### checkable schema hypotheses of the theorems (Props/C19.lean); evaluated by the driver on every
    schema the tie uses -/

/-- no state of a content automaton has two edges with the same label -/
def detB (S : Schema) : Bool :=
  (List.range S.nodes.size).all (fun t => (List.range (S.dfa t).size).all (fun q =>
    decide ((((S.dfa t).edgesOf q).map (·.1)).Nodup)))

/-- reading a text node leads to a state with the same edges and the same acceptance -/
def textStableB (S : Schema) : Bool :=
  (List.range S.nodes.size).all (fun t => (List.range (S.dfa t).size).all (fun q =>
    match (S.dfa t).matchType q S.textTy with
    | some q' => decide ((S.dfa t).edgesOf q' = (S.dfa t).edgesOf q) && ((S.dfa t).validEnd q' == (S.dfa t).validEnd q)
    | none => true))

/-- leaf types accept the empty content -/
def leafOkB (S : Schema) : Bool :=
  (List.range S.nodes.size).all (fun t => !(S.nodeType t).isLeaf || (S.dfa t).accepts [])

/-- the automata are well formed (every edge leads to a state of the automaton and is labelled with a node
    type of the schema, every node type has a start state) and fillings never fail: from every state the
    content can be completed with generatable nodes (`fill_before(Fragment.empty, True)` is not `None`), and
    every generatable node type can be created and filled (`create_and_fill()` is not `None`).  Where this
    fails the real parser dies with AttributeError on a `None` (e.g. content `a+ text`: `<x><a></a></x>`). -/
def fillOkB (S : Schema) : Bool :=
  decide (S.top < S.nodes.size) &&
  (List.range S.nodes.size).all (fun t =>
    decide (0 < (S.dfa t).size) &&
    (!S.generatable t || (match createAndFill S (S.nodes.size + 1) t with
      | .ok _ => true
      | .error _ => false)) &&
    (List.range (S.dfa t).size).all (fun q =>
      (fillBefore (S.dfa t) S.generatable q [] true).isSome &&
      ((S.dfa t).edgesOf q).all (fun e => decide (e.2 < (S.dfa t).size) && decide (e.1 < S.nodes.size))))

end PM.FromDom
