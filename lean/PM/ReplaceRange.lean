/-
  PM/ReplaceRange.lean — `Transform.replace_range(from, to, slice)` and
  `Transform.replace_range_with(from, to, node)` (prosemirror/transform/transform.py) as wholes, up
  to the calls of `Transform.replace` they make (properties C11, C18), and `close_fragment`
  (prosemirror/transform/replace.py).

  `replace_range` never builds a step itself except on the `fits_trivially` path; everything else
  is a choice of `(from', to', slice')` triples handed to `self.replace` (= `replace_step`, modelled
  in PM/Fitter.lean).  The model returns that sequence of triples:

  * `not slice.size`                → `delete_range` → `self.delete(f', t')` = `self.replace(f', t', Slice.empty)`
  * `fits_trivially`                → `self.step(ReplaceStep(from, to, slice))`, no `replace` call (`RRPlan.direct`)
  * a target depth accepts the node → one call `replace(before(target), after(target) | to, closed slice)`
  * otherwise the fallback loop     → `replace(from, to, slice)`, and while no step was added, again
                                      with the range widened to each covered depth in turn

  The code is reproduced as it is: `target_depths` is a Python list of ints with negative entries
  (`list.insert`, `list.pop`, `list.index`, `in`), the rotations are the `%` expressions of the
  code, `left_nodes` is a list with `None` entries, flags are read by truthiness of `spec.get(..)`.
  `none` = the code raises before (or instead of) handing over to `replace`.
-/
import PM.Basic
import PM.Fragment
import PM.Content
import PM.Replace
import PM.Resolve
import PM.Step
import PM.Structure
import PM.Structure2
import PM.RangeOps
import PM.FillOrder
import PM.Fitter
namespace PM

/-! ### close_fragment -/

/-- the block `if depth > new_open:` of `close_fragment`:

        match = parent.content_match_at(0)
        start = match.fill_before(fragment).append(fragment)            # assert … is not None
        if on_end_spine and open_end > depth:
            return start          # the last child stays open at the end: no end filler at this level
        fragment = start.append(match.match_fragment(start).fill_before(Fragment.empty, True))

    `parentTy` is the type of `parent` (`none` = Python `None`: only at depth 0, where
    `depth > new_open` is never true); `skipEnd` = `on_end_spine and open_end > depth`. -/
def closeLevel (S : Schema) (parentTy : Option TypeId) (skipEnd : Bool) (fragment : List Node) : FM (List Node) :=
  match parentTy with
  | none => throw .raises
  | some pt => do
    let d := S.dfa pt
    let fill ← fillOpt S d 0 (S.types fragment) false
    let fill ← liftRaise fill
    let start := fappend fill fragment
    if skipEnd then pure start
    else do
      let q ← liftRaise (d.run 0 (S.types start))
      let fill2 ← fillOpt S d q [] true
      let fill2 ← liftRaise fill2
      pure (fappend start fill2)

/-- `close_fragment(fragment, depth, old_open, new_open, parent, open_end, on_end_spine)`:

        if depth < old_open:
            first = fragment.first_child                      # assert first is not None
            fragment = fragment.replace_child(0, first.copy(close_fragment(first.content, depth + 1, …, first,
                                                   open_end, on_end_spine and fragment.child_count == 1)))
        if depth > new_open: …                                 # `closeLevel`

    The first argument counts `old_open - depth` (the recursion of the code is on `depth` going up
    to `old_open`), so `depth = oldOpen - n`.  A text / leaf node on the spine has empty content and
    `copy` gives the node itself (`Node.withKids`), as in `closeNodeStart`. -/
def closeFragment (S : Schema) (oldOpen newOpen openEnd : Nat) :
    Nat → List Node → Option TypeId → Bool → FM (List Node)
  | 0, fragment, parentTy, onEnd =>
    if newOpen < oldOpen then closeLevel S parentTy (onEnd && decide (oldOpen < openEnd)) fragment
    else pure fragment
  | _ + 1, [], _, _ => throw .raises
  | n + 1, first :: rest, parentTy, onEnd => do
    let inner ← closeFragment S oldOpen newOpen openEnd n first.kids (some (S.tyOf first)) (onEnd && rest.isEmpty)
    if newOpen < oldOpen - (n + 1) then
      closeLevel S parentTy (onEnd && decide (oldOpen - (n + 1) < openEnd)) (first.withKids inner :: rest)
    else pure (first.withKids inner :: rest)

/-- `close_fragment(slice.content, 0, slice.open_start, open_depth, None, slice.open_end)` -/
def closeSlice (S : Schema) (sl : Slice) (openDepth : Nat) : FM (List Node) :=
  closeFragment S sl.openStart openDepth sl.openEnd sl.openStart sl.content none true

/-! ### the spec flags `replace_range` reads -/

/-- `spec.get("defining") or spec.get("definingAsContext") or spec.get("isolating")` (truthiness) -/
def Schema.contextBreak (S : Schema) (n : Node) : Bool :=
  let nt := S.nodeType (S.tyOf n)
  nt.defining || nt.definingAsContext || nt.isolating

/-- `defines_content(node.type)`: `spec.get("defining") or spec.get("definingForContent")` (truthiness) -/
def Schema.definesContent (S : Schema) (n : Node) : Bool :=
  let nt := S.nodeType (S.tyOf n)
  nt.defining || nt.definingForContent

/-! ### target depths -/

/-- Python `list.insert(1, x)` -/
def pyInsert1 (l : List Int) (x : Int) : List Int := l.take 1 ++ x :: l.drop 1

/-- `if target_depths and target_depths[-1] == 0: target_depths.pop()` -/
def popZero (l : List Nat) : List Nat :=
  if l.getLast? == some 0 then l.dropLast else l

/-- the loop `d = from.depth; pos = from.pos - 1; while d > 0: …; d -= 1; pos -= 1`; the argument
    is `d`; the state is `(target_depths, preferred_target)`.  At depth `d` the variable `pos` is
    `from.pos - 1 - (from.depth - d)`; the test `from.before(d) == pos` is written
    `before(d) + 1 + (from.depth - d) == from.pos` (the two agree over the integers). -/
def rrWalk (S : Schema) (rf : RPos) : Nat → List Int → Int → Option (List Int × Int)
  | 0, tds, pt => some (tds, pt)
  | d + 1, tds, pt =>
    if S.contextBreak (rf.node (d + 1)) then some (tds, pt)
    else if tds.contains ((d + 1 : Nat) : Int) then rrWalk S rf d tds ((d + 1 : Nat) : Int)
    else
      match rf.before (d + 1) with
      | none => none
      | some b =>
        if b + 1 + (rf.depth - (d + 1)) == rf.pos then rrWalk S rf d (pyInsert1 tds (-((d + 1 : Nat) : Int))) pt
        else rrWalk S rf d tds pt

/-- `target_depths` and `preferred_target` as they stand before `preferred_target_index` is read -/
def rrTargets (S : Schema) (rf rt : RPos) : Option (List Int × Int) :=
  let covered := popZero (coveredDepthsR S rf rt)
  let preferred : Int := -((rf.depth + 1 : Nat) : Int)
  rrWalk S rf rf.depth (preferred :: covered.map Int.ofNat) preferred

/-! ### left nodes, preferred depth -/

/-- the loop building `left_nodes` (`none` = Python `None`); the first argument counts
    `open_start - i` -/
def leftNodes : Nat → List Node → List (Option Node)
  | _, [] => [none]
  | 0, node :: _ => [some node]
  | n + 1, node :: _ => some node :: leftNodes n node.kids

/-- the loop `d = preferred_depth - 1; while d >= 0`; the first argument is `d + 1`, the second the
    current `preferred_depth`; `ctx` = `from.node(abs(preferred_target) - 1)`.
    `none` = `left_nodes[d]` out of range (IndexError) or `None` (AssertionError). -/
def rrPreferredDepth (S : Schema) (ln : List (Option Node)) (ctx : Node) : Nat → Nat → Option Nat
  | 0, pd => some pd
  | d + 1, pd =>
    match ln[d]? with
    | none => none
    | some none => none
    | some (some left) =>
      let def_ := S.definesContent left
      if def_ && !left.sameMarkup ctx then rrPreferredDepth S ln ctx d d
      else if def_ || !S.isTextblockO (S.tyOf left) then some pd
      else rrPreferredDepth S ln ctx d pd

/-! ### the double loop -/

/-- `parent.can_replace_with(index, index, insert.type, insert.marks)` on a node value (marks test
    first, then `content_match_at(index)`, which raises beyond the child count) -/
def Schema.nodeCanReplaceWithM (S : Schema) (n : Node) (from_ to : Nat) (ty : TypeId) (marks : Marks) :
    Option Bool :=
  if !marks.isEmpty && !(S.nodeType (S.tyOf n)).allowsMarks marks then some false
  else if n.kids.length < from_ then none
  else S.canReplaceWith (S.tyOf n) n.kids from_ to ty marks

/-- the rotated target list: `target_depths[(i + preferred_target_index) % len(target_depths)]` for
    `i in range(len(target_depths))` -/
def rotated (tds : List Int) (pti : Nat) : List Int :=
  (List.range tds.length).filterMap (fun i => tds[(i + pti) % tds.length]?)

/-- one iteration of the inner loop for the target entry `td`:
    `some (some (a, b))` = `return self.replace(a, b, …)`, `some none` = next entry, `none` = raises.
    An entry `0` cannot occur (`covered_depths` is strictly decreasing and its trailing `0` was
    popped; all inserted entries are negative); Python would read `from.node(-1)` there. -/
def rrTarget (S : Schema) (rf rt : RPos) (t : Nat) (insert : Node) (td : Int) : Option (Option (Nat × Nat)) :=
  if td == 0 then none
  else
    let expand := decide (0 < td)
    let depth := td.natAbs
    match S.nodeCanReplaceWithM (rf.node (depth - 1)) (rf.index (depth - 1)) (rf.index (depth - 1))
        (S.tyOf insert) insert.marks with
    | none => none
    | some false => some none
    | some true =>
      match rf.before depth, (if expand then rt.after depth else some t) with
      | some a, some b => some (some (a, b))
      | _, _ => none

/-- the inner loop `for i in range(len(target_depths))` over the rotated list -/
def rrTryTargets (S : Schema) (rf rt : RPos) (t : Nat) (insert : Node) : List Int → Option (Option (Nat × Nat))
  | [] => some none
  | td :: rest =>
    match rrTarget S rf rt t insert td with
    | none => none
    | some (some p) => some (some p)
    | some none => rrTryTargets S rf rt t insert rest

/-- the outer loop `for j in range(slice.open_start, -1, -1)`; the argument is `j + 1`.
    `some (some c)` = the call `return self.replace(c)`, `some none` = falls through to the
    fallback loop. -/
def rrOpenLoop (S : Schema) (rf rt : RPos) (t : Nat) (sl : Slice) (ln : List (Option Node)) (pd : Nat)
    (targets : List Int) : Nat → Option (Option (Nat × Nat × Slice))
  | 0 => some none
  | j + 1 =>
    let openDepth := (j + pd + 1) % (sl.openStart + 1)
    -- `left_nodes[open_depth] if open_depth < len(left_nodes) else None`
    match (ln[openDepth]?).join with
    | none => rrOpenLoop S rf rt t sl ln pd targets j
    | some insert =>
      match rrTryTargets S rf rt t insert targets with
      | none => none
      | some (some (a, b)) =>
        match closeSlice S sl openDepth with
        | .ok c => some (some (a, b, ⟨c, openDepth, sl.openEnd⟩))
        | .error _ => none
      | some none => rrOpenLoop S rf rt t sl ln pd targets j

/-! ### the fallback loop -/

/-- `for i in range(len(target_depths) - 1, -1, -1)` over the *reversed* target list:
    `self.replace(from, to, slice)`; stop when that added a step (or raised: every outcome of
    `replaceStep` other than "no step" ends the sequence); a negative entry keeps the range, a
    covered depth widens it to `from.before(depth)`, `to.after(depth)`. -/
def rrFallback (S : Schema) (doc : Node) (rf rt : RPos) (sl : Slice) :
    List Int → Nat → Nat → Option (List (Nat × Nat × Slice))
  | [], _, _ => some []
  | td :: rest, f, t =>
    match replaceStep S doc f t sl with
    | .ok none =>
      if td < 0 then (rrFallback S doc rf rt sl rest f t).map ((f, t, sl) :: ·)
      else
        match rf.before td.toNat, rt.after td.toNat with
        | some a, some b => (rrFallback S doc rf rt sl rest a b).map ((f, t, sl) :: ·)
        | _, _ => none
    | _ => some [(f, t, sl)]

/-! ### replace_range -/

/-- what `replace_range` does with the document -/
inductive RRPlan where
  /-- `fits_trivially`: `self.step(ReplaceStep(from, to, slice))` without a `replace` call -/
  | direct (f t : Nat) (sl : Slice)
  /-- the `(from, to, slice)` arguments of the successive `self.replace` calls -/
  | calls (cs : List (Nat × Nat × Slice))
deriving Repr, DecidableEq

/-- the requests made of the document: a direct `ReplaceStep(f, t, slice)` is what
    `replace(f, t, slice)` records on the `fits_trivially` path of `replace_step` -/
def RRPlan.toCalls : RRPlan → List (Nat × Nat × Slice)
  | .direct f t sl => [(f, t, sl)]
  | .calls cs => cs

/-- `replace_range` after the two `resolve` calls and the `fits_trivially` test -/
def replaceRangeR (S : Schema) (doc : Node) (rf rt : RPos) (f t : Nat) (sl : Slice) : Option RRPlan :=
  match rrTargets S rf rt with
  | none => none
  | some (tds, pt) =>
    -- `preferred_target_index = target_depths.index(preferred_target)` (ValueError if absent)
    let pti := tds.idxOf pt
    if tds.length ≤ pti then none
    else
      let ln := leftNodes sl.openStart sl.content
      match rrPreferredDepth S ln (rf.node (pt.natAbs - 1)) sl.openStart sl.openStart with
      | none => none
      | some pd =>
        match rrOpenLoop S rf rt t sl ln pd (rotated tds pti) (sl.openStart + 1) with
        | none => none
        | some (some c) => some (.calls [c])
        | some none => (rrFallback S doc rf rt sl tds.reverse f t).map .calls

/-- `Transform.replace_range(f, t, slice)` on `doc` -/
def replaceRangePlan (S : Schema) (doc : Node) (f t : Nat) (sl : Slice) : Option RRPlan :=
  if sl.size == 0 then
    -- `return self.delete_range(from, to)`, which ends in `self.delete(a, b)`
    match deleteRangeTarget S doc f t with
    | none => none
    | some (a, b) => some (.calls [(a, b, Slice.empty)])
  else
    match doc.resolve f, doc.resolve t with
    | some rf, some rt =>
      match fitsTriviallyR S rf rt sl with
      | none => none
      | some true => some (.direct f t sl)
      | some false => replaceRangeR S doc rf rt f t sl
    | _, _ => none

/-- the sequence of `(from, to, slice)` requests `replace_range(f, t, slice)` makes -/
def replaceRangeCalls (S : Schema) (doc : Node) (f t : Nat) (sl : Slice) :
    Option (List (Nat × Nat × Slice)) :=
  (replaceRangePlan S doc f t sl).map RRPlan.toCalls

/-! ### replace_range_with -/

/-- the `(from, to)` that `replace_range_with(f, t, node)` passes on to `replace_range`:

        if not node.is_inline and from == to and self.doc.resolve(from).parent.content.size:
            point = insert_point(self.doc, from, node.type)
            if point is not None: from = to = point -/
def replaceRangeWithTarget (S : Schema) (doc : Node) (f t : Nat) (node : Node) : Option (Nat × Nat) :=
  if !(S.nodeType (S.tyOf node)).isInline && f == t then
    match doc.resolve f with
    | none => none
    | some r =>
      if fsize r.parent.kids != 0 then
        match insertPointR S r (S.tyOf node) with
        | none => none
        | some (some p) => some (p, p)
        | some none => some (f, t)
      else some (f, t)
  else some (f, t)

/-- `Transform.replace_range_with(f, t, node)`: `replace_range(f', t', Slice(Fragment.from_(node), 0, 0))` -/
def replaceRangeWithPlan (S : Schema) (doc : Node) (f t : Nat) (node : Node) : Option RRPlan :=
  match replaceRangeWithTarget S doc f t node with
  | none => none
  | some (a, b) => replaceRangePlan S doc a b ⟨[node], 0, 0⟩

def replaceRangeWithCalls (S : Schema) (doc : Node) (f t : Nat) (node : Node) :
    Option (List (Nat × Nat × Slice)) :=
  (replaceRangeWithPlan S doc f t node).map RRPlan.toCalls

end PM
