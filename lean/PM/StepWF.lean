/-
  PM/StepWF.lean — well-formedness of a step's payload: what `Step.apply` needs so that it cannot die
  with an internal error (C01, second sentence).  Only the two replace kinds carry a condition:

  * the slice's open depths do not exceed its spines (`Slice.wf`; otherwise `replace` indexes a
    `ResolvedPos` path past its end),
  * for replace-around, `insert ≤ slice.size` (otherwise `Slice.insert_at` places the gap content
    inside the slice's right spine and the resulting slice can lose it).

  Positions need no condition: out-of-range positions are a `ValueError` ("Position … out of range"),
  a cut inside a surrogate pair a `UnicodeDecodeError` (a `ValueError`); a range with `to < from`
  is refused by `replace()` with a ReplaceError since the repair recorded as C01-unordered-range
  (`rangeErr` in PM/Replace.lean; `sliceKids` still answers `.valueError` there, the same class for
  C01) — see the note at `apply_no_internal` in Props/C01.lean.
-/
import PM.Step
namespace PM

def StepWF : Step → Bool
  | .replace _ _ sl _ => sl.wf
  | .replaceAround _ _ _ _ sl insert _ => sl.wf && decide ((insert : Int) ≤ sl.size)
  | _ => true

/-- the positions of a step are ordered (the region in which the model follows the code) -/
def StepOrdered : Step → Bool
  | .replace f t _ _ => decide (f ≤ t)
  | .replaceAround f t gf gt _ _ _ => decide (f ≤ gf) && decide (gf ≤ gt) && decide (gt ≤ t)
  | .addMark f t _ => decide (f ≤ t)
  | .removeMark f t _ => decide (f ≤ t)
  | _ => true

end PM
