/-
  PM/DomWalk.lean — model of the DOM *walk* of the HTML importer (model/from_dom.py): `DOMParser.parse`,
  `parse_slice`, `ParseContext.add_all / add_dom / add_text_node / add_element / add_element_by_rule /
  read_styles / leaf_fallback / ignore_fallback`, `normalize_list`, `DOMParser.match_tag / match_style`,
  `schema_rules`, on top of the placement core of PM/FromDom.lean.

  The walk runs over an **abstract DOM** (`DNode`): the tree `add_all` sees, i.e. after `parse` has turned
  `.text` / `.tail` strings into `lxmltext` pseudo elements.  Everything that lives in lxml / cssselect /
  `re` / Python callbacks is an **oracle carried in the input**:

  * per element, the tag rules whose *selector and namespace* match it (`cands`, ascending rule index), with
    the answer of the rule's `get_attrs(dom)` (`GA`), and — for `get_content` / `content_element` rules —
    the nodes / the alternative DOM subtree the callback yields;
  * per element, the `style` attribute cut into declarations (`parse_styles`, a regex) with the answers of
    the style rules' `get_attrs(value)`;
  * per rule, `re.match(r"^(ul|ol)\b", tag)` and the graph of its `clear_mark` predicate.

  The model contains all control flow: which rule is tried when (`match_after`), the `context` test
  (`matchesContext`), `ignore` / `skip` / `close_parent` / `consuming`, the three tag tables, list
  normalisation, whitespace mode selection and the three whitespace rewrites (`re.sub` with fixed character
  classes), BR fallbacks, the style-rule loop (prefix / `=value` test on the
  strings), pending-mark bookkeeping with object identity, and every call into the placement core.  Every
  such call is logged (`WState.log`) as an `Event`, so that a run of the walk *is* an event sequence of the
  placement core (Proofs/DomWalk.lean: `PState.run init log = st`).

  Not modelled: `ParseOptions` other than `preserve_whitespace` (no `find_positions`, `from_`/`to_`,
  `top_node`, `context`, `rule_from_node`), a DOM node as `rule.skip`, a string / DOM node as
  `content_element` (only callables), two tag (or style) rules that are `==` (`_tags.index(after)` then
  finds the earlier one; see the findings in Props/C19.lean).
-/
import PM.FromDom
namespace PM.DomWalk
open PM.FromDom

/-! ## tag tables -/

def blockTags : List String :=
  ["address", "article", "aside", "blockquote", "canvas", "dd", "div", "dl", "fieldset", "figcaption",
   "figure", "footer", "form", "h1", "h2", "h3", "h4", "h5", "h6", "header", "hgroup", "hr", "li",
   "noscript", "ol", "output", "p", "pre", "section", "table", "tfoot", "ul"]

def ignoreTags : List String := ["head", "noscript", "object", "script", "style", "title"]

def listTags : List String := ["ol", "ul"]

/-! ## the abstract DOM with its oracle annotations -/

/-- answer of a rule's `get_attrs` callback: the rule has none; it returned `False`; it returned a dict or
    `None` (stored into `rule.attrs`); it raised -/
inductive GA where
  | absent
  | reject
  | attrs (a : Option Attrs)
  | raises
deriving Repr, Inhabited

/-- what `match_tag` / `match_style` do with the answer of `get_attrs`: skip the rule (`False`), go on with
    these `rule.attrs`, or die with the callback's exception -/
inductive GARes where
  | skip
  | use (a : Option Attrs)
  | crash

def GA.resolve (ga : GA) (static : Option Attrs) : GARes :=
  match ga with
  | .absent => .use static
  | .reject => .skip
  | .attrs a => .use a
  | .raises => .crash

/-- one `prop: value` pair of `parse_styles(style)`; `getAttrs` = for the style rules (index into
    `Parser.styles`) that have a `get_attrs`, its answer on `value` -/
structure StyleDecl where
  prop : List Char
  value : List Char
  getAttrs : List (Nat × GA)
deriving Repr, Inhabited

/-- where the content of an element parsed by a rule comes from -/
inductive CKind where
  | children     -- the element's own children
  | alt          -- `rule.content_element(dom)`: the children of another element
  | nodes        -- `rule.get_content(dom, schema)`: ready-made nodes
deriving DecidableEq, Repr, Inhabited

/-- a tag rule whose selector and namespace match the element -/
structure CandInfo where
  idx : Nat                 -- index in `parser._tags`
  ga : GA
  kind : CKind
  altTag : String := ""     -- tag (lower case) of the `content_element` element
  nodes : List Node := []   -- the `get_content` nodes
deriving Repr, Inhabited

inductive DNode where
  /-- an element (`get_node_type == 1`); `tag` = `dom.tag.lower()`; the second component of a candidate =
      the children of its `content_element` element -/
  | elem (tag : String) (styles : List StyleDecl) (cands : List (CandInfo × List DNode)) (kids : List DNode)
  /-- an `lxmltext` pseudo element with its string (UTF-16 units); `none`: its `.text` is `None` (a literal `<lxmltext></lxmltext>` in the source) -/
  | text (t : Option (List Nat))
  /-- comments, processing instructions, nested `document-fragment` elements: `add_dom` ignores them -/
  | other
deriving Repr, Inhabited

mutual
def DNode.weight : DNode → Nat
  | .elem _ _ cands kids => 1 + weightCands cands + weightList kids
  | .text _ => 1
  | .other => 1
def weightList : List DNode → Nat
  | [] => 0
  | k :: ks => 1 + k.weight + weightList ks
def weightCands : List (CandInfo × List DNode) → Nat
  | [] => 0
  | c :: cs => 1 + weightPair c + weightCands cs
def weightPair : CandInfo × List DNode → Nat
  | (_, alt) => weightList alt
end

/-- `isinstance(d.tag, str) and d.tag.upper() == "BR"` -/
def DNode.isBr : DNode → Bool
  | .elem tag _ _ _ => tag == "br"
  | _ => false

/-! ## `normalize_list` -/

inductive LKind where
  | list | li | elemOther | nonElem
deriving DecidableEq, Repr

/-- `name = child.tag.lower() if get_node_type(child) == 1 else None` and the three tests on it -/
def lkind : DNode → LKind
  | .elem tag _ _ _ => if listTags.contains tag then .list else if tag == "li" then .li else .elemOther
  | _ => .nonElem

/-- `prev_item.append(child)` -/
def DNode.appendKid : DNode → DNode → DNode
  | .elem t s c kids, x => .elem t s c (kids ++ [x])
  | n, _ => n

/-- truthiness of an lxml element: `len(elem) != 0` -/
def DNode.truthy : DNode → Bool
  | .elem _ _ _ kids => !kids.isEmpty
  | _ => false

def flushCur : Option (DNode × List DNode) → List DNode
  | none => []
  | some (li, tr) => li :: tr

/-- the `while child is not None` loop of `normalize_list`.  `acc` = the children already passed and
    final; `cur` = `prev_item` (the last `li` child seen, not followed by another element yet) together
    with the non-element siblings that follow it (they are passed again after a list has been moved into
    `prev_item` — `child = prev_item` —, which changes nothing).  A list child is moved to the end of
    `prev_item` only if `prev_item` is truthy, i.e. has at least one child. -/
def normGo : List DNode → List DNode → Option (DNode × List DNode) → List DNode
  | [], acc, cur => acc ++ flushCur cur
  | c :: rest, acc, cur =>
    match lkind c with
    | .list =>
      match cur with
      | some (li, tr) =>
        if li.truthy then normGo rest acc (some (li.appendKid c, tr))
        else normGo rest (acc ++ li :: tr ++ [c]) none
      | none => normGo rest (acc ++ [c]) none
    | .li => normGo rest (acc ++ flushCur cur) (some (c, []))
    | .elemOther => normGo rest (acc ++ flushCur cur ++ [c]) none
    | .nonElem =>
      match cur with
      | some (li, tr) => normGo rest acc (some (li, tr ++ [c]))
      | none => normGo rest (acc ++ [c]) none

/-- `normalize_list(dom)` on the child list of `dom` -/
def normalizeList (kids : List DNode) : List DNode := normGo kids [] none

/-! ## parse rules -/

/-- a rule with a `tag` (an entry of `parser._tags`).  `node` / `mark`: `none` = not set, `some none` = a name
    the schema does not have (`schema.nodes[name]` raises KeyError when the rule is applied). -/
structure TagRule where
  context : List Char := []       -- `""` and `None` are both falsy
  node : Option (Option TypeId) := none
  mark : Option (Option MarkTypeId) := none
  attrs : Option Attrs := none    -- the static `attrs` of the spec
  ignore : Bool := false
  skip : Bool := false            -- `skip: True`
  closeParent : Bool := false
  consuming : Bool := true        -- `false` ⇔ `rule.consuming is False`
  preserveWs : WS := .unset
  listTag : Bool := false         -- `re.match(r"^(ul|ol)\b", rule.tag) is not None`
deriving Inhabited

/-- a rule with a `style` (an entry of `parser._styles`); `clearMark` = the `clear_mark` predicate -/
structure StyleRule where
  style : List Char
  context : List Char := []
  mark : Option (Option MarkTypeId) := none
  attrs : Option Attrs := none
  ignore : Bool := false
  clearMark : Option (Mark → Bool) := none
  consuming : Bool := true
deriving Inhabited

structure Parser where
  S : Schema
  G : TypeId → List String        -- `NodeType.groups`
  wsPre : TypeId → Bool           -- `type.whitespace == "pre"`
  tags : List TagRule
  styles : List StyleRule

/-- `DOMParser.normalize_lists`: no `ul` / `ol` rule produces a node type that can directly contain itself -/
def Parser.normalizeLists (P : Parser) : Bool :=
  !P.tags.any (fun r => r.listTag && (match r.node with
    | some (some t) => ((P.S.dfa t).matchType 0 t).isSome
    | _ => false))

/-! ## the walk state: placement-core state + the log of calls into the core + mark object identities -/

structure WState where
  st : PState
  log : List Event := []
  nextMark : Nat            -- the next unused object identity for a `Mark`
deriving Inhabited

/-- one call into the placement core, logged -/
def emit (P : Parser) (w : WState) (e : Event) : Res (WState × Option Bool) :=
  match w.st.step P.S P.wsPre e with
  | .error err => .error err
  | .ok (st', r) => .ok ({ w with st := st', log := w.log ++ [e] }, r)

/-- `emit`, result dropped -/
def emit' (P : Parser) (w : WState) (e : Event) : Res WState :=
  match emit P w e with
  | .error err => .error err
  | .ok (w', _) => .ok w'

/-- `self.top` -/
def WState.top (w : WState) : Option NodeCtx := w.st.nodes[w.st.open_]?

/-- the index of a remembered `NodeContext` object in `self.nodes` now (`none`: not in the list any more) -/
def WState.idxOf (w : WState) (uid : Nat) : Option Nat := w.st.nodes.findIdx? (fun c => c.uid == uid)

/-- the ancestors `matches_context` sees (no `options.context`) -/
def WState.stack (w : WState) : List TypeId :=
  visibleStack none w.st.isOpen (w.st.nodes.map (·.ty)) w.st.open_

/-- emit one event per list element, in order -/
def emitEach (P : Parser) {α : Type} (mk : WState → α → Event) : List α → WState → Res WState
  | [], w => .ok w
  | a :: as, w =>
    match emit' P w (mk w a) with
    | .error e => .error e
    | .ok w' => emitEach P mk as w'

/-! ## text nodes -/

/-- `re.sub(r"[ \t\r\n\u000c]+", " ", value)`; `inRun` ⇔ the previous unit was whitespace -/
def collapseAux : Bool → List Nat → List Nat
  | _, [] => []
  | inRun, u :: rest =>
    if isHtmlSpace u then (if inRun then collapseAux true rest else 32 :: collapseAux true rest)
    else u :: collapseAux false rest

def collapseWs (s : List Nat) : List Nat := collapseAux false s

/-- `re.sub(r"\r?\n|\r", " ", value)` -/
def nlToSpace : List Nat → List Nat
  | [] => []
  | 13 :: 10 :: rest => 32 :: nlToSpace rest
  | 13 :: rest => 32 :: nlToSpace rest
  | 10 :: rest => 32 :: nlToSpace rest
  | u :: rest => u :: nlToSpace rest

/-- `re.sub(r"\r\n?", "\n", value)` -/
def crlfToLf : List Nat → List Nat
  | [] => []
  | 13 :: 10 :: rest => 10 :: crlfToLf rest
  | 13 :: rest => 10 :: crlfToLf rest
  | u :: rest => u :: crlfToLf rest

def endsWithSpace (s : List Nat) : Bool := (s.getLast?.map isHtmlSpace).getD false

/-- `NodeContext.inline_context(dom)`; `parentTag` = lower-case tag of `dom.getparent()` (`none`: no parent —
    the made-up text node of `leaf_fallback`; a parent is always truthy: it has the text node as child) -/
def inlineContext (S : Schema) (top : NodeCtx) (parentTag : Option String) : Bool :=
  match top.ty with
  | some t => (S.nodeType t).inlineContent
  | none =>
    match top.content.head? with
    | some n => (S.nodeType (S.tyOf n)).isInline
    | none =>
      match parentTag with
      | some p => !blockTags.contains p
      | none => false

/-- the string `add_text_node` inserts (possibly empty) -/
def textValue (w : WState) (top : NodeCtx) (raw : List Nat) (prevBr : Bool) : List Nat :=
  if !top.opts.preserveWs then
    let v := collapseWs raw
    if (v.head?.map isHtmlSpace).getD false && w.st.open_ == w.st.nodes.length - 1 then
      let drop := match top.content.getLast? with
        | none => true
        | some (.text s _) => prevBr || endsWithSpace s
        | some _ => prevBr
      if drop then v.drop 1 else v
    else v
  else if !top.opts.full then nlToSpace raw
  else crlfToLf raw

/-- `add_text_node(dom)`; a `None` string dies in `re` with TypeError whichever branch is taken -/
def addTextNode (P : Parser) (w : WState) (t : Option (List Nat)) (parentTag : Option String) (prevBr : Bool) : Res WState :=
  match w.top with
  | none => .error .internal
  | some top =>
    match t with
    | none => .error .internal
    | some raw =>
      if top.opts.full || inlineContext P.S top parentTag || raw.any (fun u => !isHtmlSpace u) then
        let value := textValue w top raw prevBr
        if value.isEmpty then .ok w else emit' P w (.insertNode (.text value []))
      else .ok w

/-- the made-up `lxmltext` node of `leaf_fallback`: the string `"\n"` -/
def brText : List Nat := [10]

/-- `leaf_fallback(dom)` -/
def leafFallback (P : Parser) (w : WState) (tag : String) : Res WState :=
  match w.top with
  | none => .error .internal
  | some top =>
    if tag == "br" && (match top.ty with
        | some t => (P.S.nodeType t).inlineContent
        | none => false) then
      addTextNode P w (some brText) none false
    else .ok w

/-- `ignore_fallback(dom)`: only *looks for* a place for a `"-"` text (which may open wrappers) -/
def ignoreFallback (P : Parser) (w : WState) (tag : String) : Res WState :=
  match w.top with
  | none => .error .internal
  | some top =>
    if tag == "br" && (match top.ty with
        | some t => (P.S.nodeType t).inlineContent
        | none => true) then
      emit' P w (.findPlace (.text [45] []))
    else .ok w

/-! ## rule matching -/

structure TagMatch where
  idx : Nat
  rule : TagRule
  attrs : Option Attrs          -- `rule.attrs` after `match_tag`
  info : CandInfo
  alt : List DNode

/-- `rule.context` is falsy, or `matches_context(rule.context)` -/
def contextOk (P : Parser) (stack : List TypeId) (ctx : List Char) : Bool :=
  ctx.isEmpty || matchesContext P.S P.G stack ctx

/-- `DOMParser.match_tag(dom, context, after)`: the loop over `self._tags[i:]`, restricted to the rules whose
    selector and namespace match (`cands`, ascending); `start` = `i` -/
def matchTag (P : Parser) (stack : List TypeId) : List (CandInfo × List DNode) → Nat → Res (Option TagMatch)
  | [], _ => .ok none
  | (c, alt) :: rest, start =>
    if c.idx < start then matchTag P stack rest start
    else
      match P.tags[c.idx]? with
      | none => matchTag P stack rest start       -- the oracle names a rule that does not exist
      | some r =>
        if !contextOk P stack r.context then matchTag P stack rest start
        else
          match c.ga.resolve r.attrs with
          | .use a => .ok (some ⟨c.idx, r, a, c, alt⟩)
          | .skip => matchTag P stack rest start
          | .crash => .error .internal

/-- the string test of `match_style`: `style.startswith(prop)` and, if `style` is longer, it continues with
    `=` and exactly `value` -/
def styleMatches (style prop value : List Char) : Bool :=
  prop.isPrefixOf style &&
    (style.length ≤ prop.length || (style[prop.length]? == some '=' && style.drop (prop.length + 1) == value))

/-- `MarkType.create(attrs)`: the shared `instance` when `attrs` is falsy and the type has one — which it has
    iff it declares at least one attribute and all have defaults (`if defaults:` on a dict) —, else a new
    object.  Object identities: `0 … #marktypes-1` are the instances, larger ones are fresh. -/
def createMark (S : Schema) (mt : MarkTypeId) (attrs : Option Attrs) (next : Nat) : Res (TMark × Nat) :=
  let decls := (S.markType mt).attrs
  match computeAttrs decls (attrs.getD []) with
  | .error e => .error e
  | .ok a =>
    if (attrs.getD []).isEmpty && !decls.isEmpty && decls.all (·.hasDefault) then .ok ((mt, ⟨mt, a⟩), next)
    else .ok ((next, ⟨mt, a⟩), next + 1)

structure StyleAcc where
  add : List TMark := []
  remove : List TMark := []
  next : Nat

/-- the `clear_mark` branch of `read_styles`: `for m in top.pending_marks + top.active_marks: if
    rule.clear_mark(m): remove = m.add_to_set(remove)` (the objects keep their identity: `activeT`) -/
def clearMarks (S : Schema) (clear : Mark → Bool) (top : NodeCtx) (acc : StyleAcc) : StyleAcc :=
  (top.pending ++ top.activeT).foldl (fun acc m =>
    if clear m.2 then { acc with remove := tAddToSet S m acc.remove } else acc) acc

/-- the body of the `while True` loop of `read_styles` for a rule that matched: `.ok none` = an `ignore`
    rule (`read_styles` returns `None`) -/
def styleApply (P : Parser) (top : NodeCtx) (r : StyleRule) (attrs : Option Attrs) (acc : StyleAcc) : Res (Option StyleAcc) :=
  if r.ignore then .ok none
  else
    match r.clearMark with
    | some clear => .ok (some (clearMarks P.S clear top acc))
    | none =>
      match r.mark with
      | some (some mt) =>
        match createMark P.S mt attrs acc.next with
        | .error e => .error e
        | .ok (m, next) => .ok (some { acc with add := tAddToSet P.S m acc.add, next := next })
      | _ => .error .internal        -- `schema.marks[rule.mark]`: KeyError

/-- the `while True` loop of `read_styles` for one declaration, over the style rules not tried yet
    (`match_style(prop, value, self, after)` looks at `_styles[index(after)+1:]`) -/
def styleLoop (P : Parser) (stack : List TypeId) (top : NodeCtx) (d : StyleDecl) :
    List (Nat × StyleRule) → StyleAcc → Res (Option StyleAcc)
  | [], acc => .ok (some acc)
  | (i, r) :: rest, acc =>
    if !(styleMatches r.style d.prop d.value && contextOk P stack r.context) then styleLoop P stack top d rest acc
    else
      match (((d.getAttrs.find? (fun (x : Nat × GA) => x.1 == i)).map (·.2)).getD GA.absent).resolve r.attrs with
      | .skip => styleLoop P stack top d rest acc
      | .crash => .error .internal
      | .use attrs =>
        match styleApply P top r attrs acc with
        | .error e => .error e
        | .ok none => .ok none
        | .ok (some acc') => if r.consuming then .ok (some acc') else styleLoop P stack top d rest acc'

/-- `read_styles(styles)` -/
def readStyles (P : Parser) (w : WState) (top : NodeCtx) : List StyleDecl → StyleAcc → Res (Option StyleAcc)
  | [], acc => .ok (some acc)
  | d :: ds, acc =>
    match styleLoop P w.stack top d (P.styles.zipIdx.map (fun (r, i) => (i, r))) acc with
    | .error e => .error e
    | .ok none => .ok none
    | .ok (some acc') => readStyles P w top ds acc'

/-! ## the non-recursive halves of `add_dom`, `add_element`, `add_element_by_rule` -/

structure StyleCtx where
  add : List TMark
  remove : List TMark
  top : Nat          -- identity of `top`

/-- `add_dom`, element with a `style` attribute, up to the call of `add_element`; `.ok none`: the element is
    dropped (`read_styles` returned `None`).  (Without `style` the code calls `add_element` directly, which is
    what this does for an empty declaration list: no marks, no events.) -/
def stylePre (P : Parser) (w : WState) (styles : List StyleDecl) : Res (Option (WState × StyleCtx)) :=
  match w.top with
  | none => .error .internal
  | some top =>
    match readStyles P w top styles { next := w.nextMark } with
    | .error e => .error e
    | .ok none => .ok none
    | .ok (some acc) =>
      let w := { w with nextMark := acc.next }
      match emitEach P (fun w m => .removePending m (w.idxOf top.uid)) acc.remove w with
      | .error e => .error e
      | .ok w1 =>
        match emitEach P (fun _ m => .addPending m) acc.add w1 with
        | .error e => .error e
        | .ok w2 => .ok (some (w2, ⟨acc.add, acc.remove, top.uid⟩))

/-- `add_dom` after `add_element` -/
def stylePost (P : Parser) (w : WState) (sc : StyleCtx) : Res WState :=
  match emitEach P (fun w m => .removePending m (w.idxOf sc.top)) sc.add w with
  | .error e => .error e
  | .ok w1 => emitEach P (fun _ m => .addPending m) sc.remove w1

structure BlockCtx where
  sync : Bool
  top : Nat          -- identity of `top`
  oldNeedsBlock : Bool

inductive BlockRes where
  | done (w : WState)                  -- `leaf_fallback(dom); return`
  | go (w : WState) (bc : BlockCtx)

/-- `if top.content and top.content[0].is_inline and self.open: self.open -= 1; top = self.top` -/
def stepOut (P : Parser) (w0 : WState) (top : NodeCtx) : Res (WState × NodeCtx) :=
  if (match top.content.head? with
      | some n => (P.S.nodeType (P.S.tyOf n)).isInline
      | none => false) && w0.st.open_ != 0 then
    match emit' P w0 (.setOpen (w0.st.open_ - 1)) with
    | .error e => .error e
    | .ok w1 =>
      match w1.top with
      | none => .error .internal
      | some top1 => .ok (w1, top1)
  else .ok (w0, top)

/-- `add_element`, the branch `rule is None or rule.skip or rule.close_parent` (here: no rule, or
    `close_parent`), up to `add_all(dom)` -/
def blockOpen (P : Parser) (w : WState) (tag : String) (noKids : Bool) (closeParent : Bool) : Res BlockRes :=
  let w0 : Res WState := if closeParent then emit' P w (.setOpen (w.st.open_ - 1)) else .ok w
  match w0 with
  | .error e => .error e
  | .ok w0 =>
    match w0.top with
    | none => .error .internal
    | some top =>
      let old := w0.st.needsBlock
      if blockTags.contains tag then
        match stepOut P w0 top with
        | .error e => .error e
        | .ok (w1, top1) =>
          let w2 : Res WState := if top1.ty.isNone then emit' P w1 (.setNeedsBlock true) else .ok w1
          match w2 with
          | .error e => .error e
          | .ok w2 => .ok (.go w2 ⟨true, top1.uid, old⟩)
      else if noKids then
        match leafFallback P w0 tag with
        | .error e => .error e
        | .ok w1 => .ok (.done w1)
      else .ok (.go w0 ⟨false, top.uid, old⟩)

/-- … and after it -/
def blockClose (P : Parser) (w : WState) (bc : BlockCtx) : Res WState :=
  let w1 : Res WState := if bc.sync then emit' P w (.sync (w.idxOf bc.top)) else .ok w
  match w1 with
  | .error e => .error e
  | .ok w1 => emit' P w1 (.setNeedsBlock bc.oldNeedsBlock)

structure RuleCtx where
  sync : Bool
  mark : Option TMark
  leaf : Bool
  startIn : Nat      -- identity of `start_in`

/-- `add_element_by_rule`, the node / mark part: the state, `sync`, `mark`, whether the node type is a leaf -/
def ruleFirst (P : Parser) (w : WState) (tag : String) (r : TagRule) (attrs : Option Attrs) :
    Res (WState × Bool × Option TMark × Bool) :=
    match r.node with
    | some none => .error .internal            -- `schema.nodes[rule.node]`: KeyError
    | some (some t) =>
      let nt := P.S.nodeType t
      if !nt.isLeaf then
        match emit P w (.enter t attrs r.preserveWs) with
        | .error e => .error e
        | .ok (w1, res) => .ok (w1, res.getD false, none, false)
      else if nt.isText then .error .valueError     -- `NodeType.create` cannot construct text nodes
      else
        match computeAttrs nt.attrs (attrs.getD []) with
        | .error e => .error e
        | .ok a =>
          match emit P w (.insertNode (.leaf t a [])) with
          | .error e => .error e
          | .ok (w1, res) =>
            if res.getD false then .ok (w1, false, none, true)
            else
              match leafFallback P w1 tag with
              | .error e => .error e
              | .ok w2 => .ok (w2, false, none, true)
    | none =>
      match r.mark with
      | some none => .error .internal          -- `schema.marks[rule.mark]`: KeyError
      | some (some mt) =>
        match createMark P.S mt attrs w.nextMark with
        | .error e => .error e
        | .ok (m, next) =>
          match emit' P { w with nextMark := next } (.addPending m) with
          | .error e => .error e
          | .ok w1 => .ok (w1, false, some m, false)
      | none => .ok (w, false, none, false)

/-- `add_element_by_rule` up to `start_in = self.top` -/
def ruleOpen (P : Parser) (w : WState) (tag : String) (r : TagRule) (attrs : Option Attrs) : Res (WState × RuleCtx) :=
  match ruleFirst P w tag r attrs with
  | .error e => .error e
  | .ok (w1, sync, mark, leaf) =>
    match w1.top with
    | none => .error .internal
    | some top => .ok (w1, ⟨sync, mark, leaf, top.uid⟩)

/-- `add_element_by_rule` after the content: `if sync and self.sync(start_in): self.open -= 1`, then the
    mark is taken off again -/
def ruleClose (P : Parser) (w : WState) (rc : RuleCtx) : Res WState :=
  let w1 : Res WState :=
    if rc.sync then
      match emit P w (.sync (w.idxOf rc.startIn)) with
      | .error e => .error e
      | .ok (w1, res) => if res.getD false then emit' P w1 (.setOpen (w1.st.open_ - 1)) else .ok w1
    else .ok w
  match w1 with
  | .error e => .error e
  | .ok w1 =>
    match rc.mark with
    | some m => emit' P w1 (.removePending m (w1.idxOf rc.startIn))
    | none => .ok w1

/-- what `add_element` does with the outcome of `match_tag` -/
inductive Decision where
  | ignore                       -- `(rule and rule.ignore) or name in IGNORE_TAGS`
  | plain (closeParent : Bool)   -- no rule, or a `close_parent` rule
  | skipCrash                    -- `skip: True`: `get_node_type(True)` raises ValueError
  | byRule (m : TagMatch)

def decideTag (tag : String) : Option TagMatch → Decision
  | none => if ignoreTags.contains tag then .ignore else .plain false
  | some m =>
    if m.rule.ignore || ignoreTags.contains tag then .ignore
    else if m.rule.closeParent then .plain true
    else if m.rule.skip then .skipCrash
    else .byRule m

theorem decideTag_byRule (tag : String) (om : Option TagMatch) (m : TagMatch) (h : decideTag tag om = .byRule m) :
    om = some m := by
  cases om with
  | none => simp only [decideTag] at h; split at h <;> cases h
  | some m' =>
    simp only [decideTag] at h
    split at h; · cases h
    split at h; · cases h
    split at h; · cases h
    cases h; rfl

/-- the `get_content` branch: `fragment.for_each(lambda node, …: self.insert_node(node))` -/
def insertAll (P : Parser) : List Node → WState → Res WState
  | [], w => .ok w
  | n :: ns, w =>
    match emit' P w (.insertNode n) with
    | .error e => .error e
    | .ok w' => insertAll P ns w'

/-! ## termination of the walk: facts about `matchTag` -/

theorem matchTag_some (P : Parser) (stack : List TypeId) :
    ∀ (cands : List (CandInfo × List DNode)) (start : Nat) (m : TagMatch),
      matchTag P stack cands start = .ok (some m) →
      start ≤ m.idx ∧ m.idx < P.tags.length ∧ (m.info, m.alt) ∈ cands ∧ P.tags[m.idx]? = some m.rule
  | [], _, _, h => by simp [matchTag] at h
  | (c, alt) :: rest, start, m, h => by
    unfold matchTag at h
    have ih := matchTag_some P stack rest start m
    split at h
    · have := ih h; exact ⟨this.1, this.2.1, List.mem_cons_of_mem _ this.2.2.1, this.2.2.2⟩
    · rename_i hlt
      split at h
      · have := ih h; exact ⟨this.1, this.2.1, List.mem_cons_of_mem _ this.2.2.1, this.2.2.2⟩
      · rename_i r hr
        have hlen : c.idx < P.tags.length := by
          rcases Nat.lt_or_ge c.idx P.tags.length with h' | h'
          · exact h'
          · rw [List.getElem?_eq_none h'] at hr; cases hr
        split at h
        · have := ih h; exact ⟨this.1, this.2.1, List.mem_cons_of_mem _ this.2.2.1, this.2.2.2⟩
        · split at h
          · simp only [Except.ok.injEq, Option.some.injEq] at h; subst h
            exact ⟨Nat.le_of_not_lt hlt, hlen, List.mem_cons_self, hr⟩
          · have := ih h; exact ⟨this.1, this.2.1, List.mem_cons_of_mem _ this.2.2.1, this.2.2.2⟩
          · cases h

theorem weightCands_mem : ∀ (cands : List (CandInfo × List DNode)) (c : CandInfo) (alt : List DNode),
    (c, alt) ∈ cands → weightList alt < weightCands cands
  | [], _, _, h => by cases h
  | x :: xs, c, alt, h => by
    rw [weightCands]
    rcases List.mem_cons.1 h with rfl | h
    · simp only [weightPair]; omega
    · have := weightCands_mem xs c alt h; omega

theorem weightList_append : ∀ (a b : List DNode), weightList (a ++ b) = weightList a + weightList b
  | [], b => by simp [weightList]
  | x :: a, b => by simp only [List.cons_append, weightList, weightList_append a b]; omega

theorem weight_appendKid (li c : DNode) (h : li.truthy = true) : (li.appendKid c).weight = li.weight + 1 + c.weight := by
  cases li with
  | elem t s cs kids => simp only [DNode.appendKid, DNode.weight, weightList_append, weightList]; omega
  | text _ => simp [DNode.truthy] at h
  | other => simp [DNode.truthy] at h

theorem weight_flushCur (cur : Option (DNode × List DNode)) :
    weightList (flushCur cur) = match cur with
      | none => 0
      | some (li, tr) => 1 + li.weight + weightList tr := by
  cases cur with
  | none => simp [flushCur, weightList]
  | some p => obtain ⟨li, tr⟩ := p; simp [flushCur, weightList]

theorem weight_normGo : ∀ (rest acc : List DNode) (cur : Option (DNode × List DNode)),
    weightList (normGo rest acc cur) = weightList rest + weightList acc + weightList (flushCur cur)
  | [], acc, cur => by simp [normGo, weightList_append, weightList]
  | c :: rest, acc, cur => by
    unfold normGo
    split
    · split
      · rename_i li tr
        split
        · rename_i ht
          rw [weight_normGo rest acc _]
          simp only [flushCur, weightList, weight_appendKid li c ht]; omega
        · rw [weight_normGo rest _ none]
          simp only [flushCur, weightList, weightList_append]; omega
      · rw [weight_normGo rest _ none]
        simp only [flushCur, weightList, weightList_append]; omega
    · rw [weight_normGo rest _ _]
      simp only [flushCur, weightList, weightList_append]; omega
    · rw [weight_normGo rest _ none]
      simp only [flushCur, weightList, weightList_append]; omega
    · split
      · rw [weight_normGo rest acc _]
        simp only [flushCur, weightList, weightList_append]; omega
      · rw [weight_normGo rest _ none]
        simp only [flushCur, weightList, weightList_append]; omega

/-- `normalize_list` only moves nodes -/
theorem weight_normalizeList (kids : List DNode) : weightList (normalizeList kids) = weightList kids := by
  simp [normalizeList, weight_normGo, flushCur, weightList]

/-- the child list `add_element` goes on with -/
def normKids (P : Parser) (tag : String) (kids : List DNode) : List DNode :=
  if listTags.contains tag && P.normalizeLists then normalizeList kids else kids

theorem weight_normKids (P : Parser) (tag : String) (kids : List DNode) :
    weightList (normKids P tag kids) = weightList kids := by
  unfold normKids; split
  · exact weight_normalizeList kids
  · rfl

/-! ## decidable guards on the input (hypotheses of the theorems in Props/C19.lean; evaluated by the driver) -/

def GA.isRaises : GA → Bool
  | .raises => true
  | _ => false

mutual
/-- `strict`: no text node lacks its string and no `get_attrs` callback raises (the two things in the DOM that
    make the real walk die with a TypeError / the callback's exception); `N`: what holds of every node a
    `get_content` callback hands over -/
def DNode.ok (strict : Bool) (N : Node → Bool) : DNode → Bool
  | .elem _ styles cands kids =>
    (!strict || styles.all (fun d => d.getAttrs.all (fun x => !x.2.isRaises))) && candsOk strict N cands && listOk strict N kids
  | .text t => !strict || t.isSome
  | .other => true
def listOk (strict : Bool) (N : Node → Bool) : List DNode → Bool
  | [] => true
  | k :: ks => k.ok strict N && listOk strict N ks
def candsOk (strict : Bool) (N : Node → Bool) : List (CandInfo × List DNode) → Bool
  | [] => true
  | c :: cs => pairOk strict N c && candsOk strict N cs
def pairOk (strict : Bool) (N : Node → Bool) : CandInfo × List DNode → Bool
  | (c, alt) => (!strict || !c.ga.isRaises) && c.nodes.all N && listOk strict N alt
end

/-- every rule names node / mark types the schema has, and every style rule that is neither `ignore` nor
    `clear_mark` names a mark (else `schema.nodes[…]` / `schema.marks[…]` raises KeyError when the rule fires) -/
def Parser.rulesOk (P : Parser) : Bool :=
  P.tags.all (fun r => match r.node with
    | some (some t) => decide (t < P.S.nodes.size)
    | _ => true) &&
  P.tags.all (fun r => r.node != some none && r.mark != some none) &&
  P.styles.all (fun r => r.ignore || r.clearMark.isSome || (match r.mark with
    | some (some _) => true
    | _ => false))

/-! ## the walk -/

mutual
/-- `add_all(parent)`: `ptag` = `parent.tag.lower()`, `prevBr` ⇔ the previous sibling is a `<br>` -/
def addAll (P : Parser) (ptag : String) (kids : List DNode) (prevBr : Bool) (w : WState) : Res WState :=
  match kids with
  | [] => .ok w
  | k :: ks =>
    match addDom P ptag prevBr k w with
    | .error e => .error e
    | .ok w' => addAll P ptag ks k.isBr w'
termination_by (weightList kids, 0, 0)
decreasing_by
  all_goals simp only [weightList]
  · apply Prod.Lex.left; omega
  · apply Prod.Lex.left; omega

/-- `add_dom(dom)` -/
def addDom (P : Parser) (ptag : String) (prevBr : Bool) (k : DNode) (w : WState) : Res WState :=
  match k with
  | .other => .ok w
  | .text t => addTextNode P w t (some ptag) prevBr
  | .elem tag styles cands kids =>
    match stylePre P w styles with
    | .error e => .error e
    | .ok none => .ok w
    | .ok (some (w1, sc)) =>
      match addElement P tag cands kids 0 w1 with
      | .error e => .error e
      | .ok w2 => stylePost P w2 sc
termination_by (k.weight, P.tags.length + 1, 0)
decreasing_by
  simp only [DNode.weight]
  apply Prod.Lex.right'
  · omega
  · apply Prod.Lex.left; omega

/-- `add_element(dom, match_after)`; `start` = the index `match_tag` starts at (0, or index of `match_after` + 1).
    With a rule that is not `consuming` the content is parsed by `add_element(dom, rule)` again. -/
def addElement (P : Parser) (tag : String) (cands : List (CandInfo × List DNode)) (kids : List DNode)
    (start : Nat) (w : WState) : Res WState :=
  match h : matchTag P w.stack cands start with
  | .error e => .error e
  | .ok om =>
    match hd : decideTag tag om with
    | .ignore => ignoreFallback P w tag
    | .skipCrash => .error .valueError
    | .plain closeParent =>
      match blockOpen P w tag (normKids P tag kids).isEmpty closeParent with
      | .error e => .error e
      | .ok (.done w1) => .ok w1
      | .ok (.go w1 bc) =>
        match addAll P tag (normKids P tag kids) false w1 with
        | .error e => .error e
        | .ok w2 => blockClose P w2 bc
    | .byRule m =>
      match ruleOpen P w tag m.rule m.attrs with
      | .error e => .error e
      | .ok (w1, rc) =>
        let content : Res WState :=
          if rc.leaf then .ok w1
          else if !m.rule.consuming then addElement P tag cands (normKids P tag kids) (m.idx + 1) w1
          else
            match m.info.kind with
            | .nodes => insertAll P m.info.nodes w1
            | .alt => addAll P m.info.altTag m.alt false w1
            | .children => addAll P tag (normKids P tag kids) false w1
        match content with
        | .error e => .error e
        | .ok w2 => ruleClose P w2 rc
termination_by (1 + weightCands cands + weightList kids, P.tags.length - start, 1)
decreasing_by
  · apply Prod.Lex.left; rw [weight_normKids]; omega
  · have hm := decideTag_byRule _ _ _ hd
    subst hm
    have := matchTag_some P _ _ _ _ h
    rw [weight_normKids]
    apply Prod.Lex.right'
    · omega
    · apply Prod.Lex.left; omega
  · have hm := decideTag_byRule _ _ _ hd
    subst hm
    have := matchTag_some P _ _ _ _ h
    have := weightCands_mem _ _ _ this.2.2.1
    apply Prod.Lex.left; omega
  · apply Prod.Lex.left; rw [weight_normKids]; omega
end

/-! ## `DOMParser.parse` / `parse_slice` -/

/-- the state of a fresh `ParseContext`; mark identities `0 … #marktypes-1` are the shared instances -/
def walkInit (P : Parser) (isOpen : Bool) (pw : WS) : WState :=
  { st := PState.init P.S isOpen pw false, nextMark := P.S.marks.size }

/-- `DOMParser.parse(dom)` (no options): `rootTag` = `dom.tag.lower()`, `kids` = its children after the
    `lxmltext` preprocessing.  Returns the walk's final state (for its log) and the document. -/
def parseW (P : Parser) (rootTag : String) (kids : List DNode) : Res (WState × Node) :=
  match addAll P rootTag kids false (walkInit P false .unset) with
  | .error e => .error e
  | .ok w =>
    match w.st.finish P.S with
    | .error e => .error e
    | .ok (some doc, _) => .ok (w, doc)
    | .ok (none, _) => .error .internal       -- unreachable: the root context of `parse` has a type

def parse (P : Parser) (rootTag : String) (kids : List DNode) : Res Node :=
  (parseW P rootTag kids).map (·.2)

/-- `DOMParser.parse_slice(dom)` (no options: `preserve_whitespace=True`): the fragment before `Slice.max_open` -/
def parseSliceW (P : Parser) (rootTag : String) (kids : List DNode) : Res (WState × List Node) :=
  match addAll P rootTag kids false (walkInit P true .on) with
  | .error e => .error e
  | .ok w =>
    match w.st.finish P.S with
    | .error e => .error e
    | .ok (none, frag) => .ok (w, frag)
    | .ok (some _, _) => .error .internal     -- unreachable: the root context of `parse_slice` has no type

/-! ## `DOMParser.schema_rules`: rule collection and priority order -/

/-- what `schema_rules` looks at in a `parseDOM` entry; `id` identifies the entry for the comparison -/
structure RuleSpec where
  id : Nat
  priority : Option Int
  hasMark : Bool          -- `rule.mark` truthy
  ignore : Bool           -- `rule.ignore` truthy
  hasClearMark : Bool     -- `rule.clear_mark` truthy
deriving Repr, Inhabited, DecidableEq

def RuleSpec.prio (r : RuleSpec) : Int := r.priority.getD 50

/-- the local function `insert(rule)`: before the first rule of strictly lower priority -/
def insertRule (r : RuleSpec) : List RuleSpec → List RuleSpec
  | [] => [r]
  | x :: xs => if x.prio < r.prio then r :: x :: xs else x :: insertRule r xs

/-- the owner (mark / node name) is filled in unless the rule names a mark, is `ignore`, or has `clear_mark` -/
def RuleSpec.takesOwner (r : RuleSpec) : Bool := !(r.hasMark || r.ignore || r.hasClearMark)

/-- `schema_rules(schema)`: `specs` = the `parseDOM` entries of all marks, then of all nodes, in order -/
def schemaRules (specs : List RuleSpec) : List RuleSpec := specs.foldl (fun acc r => insertRule r acc) []

end PM.DomWalk
