/-
  PM/FitGuards.lean — decidable hypotheses of the payload-validity theorems about the Fitter
  (Props/C11.lean `insertInline_emits_valid_payload`); evaluated by the driver (op `fitEmit`).
-/
import PM.Fitter
import PM.OpGuard
namespace PM

/-- **every content position can be finished**: `fill_before(Fragment.empty, True)` answers (is not `None`)
    at the start state and at every state an edge leads to, for every node type.
    `close_frontier_node` silently skips the filling when it is `None` (`if add and add.child_count`), which
    leaves the closed node's content short of a valid end — the node it closes is then not valid. -/
def Schema.closableB (S : Schema) : Bool :=
  (List.range S.nodes.size).all (fun w =>
    (fillBeforeTypes S (S.dfa w) 0 [] true).isSome &&
    (List.range (S.dfa w).size).all (fun q => ((S.dfa w).edgesOf q).all (fun e =>
      (fillBeforeTypes S (S.dfa w) e.2 [] true).isSome)))

/-- the closed nodes of a request slice are valid (`Node.check`) — for a closed slice: all of its content -/
def Slice.closedValid (S : Schema) (sl : Slice) : Bool := S.checkKids sl.content

/-! ### the validity invariant of the loop of `fit` as a decidable predicate (Proofs/FitPayload.lean `VInv`) -/

/-- what is recorded of a level the Fitter opened: the type is one of the schema, the children's marks are allowed
    by it, the match is the state of its automaton after all children -/
def levelRB (S : Schema) (mk : Bool) (it : FItem) (F : List Node) : Bool :=
  !mk || (decide (it.ty < S.nodes.size) && F.all (fun c => (S.nodeType it.ty).allowsMarks c.marks) &&
    (it.st.isSome && (S.dfa it.ty).run 0 (S.types F) == it.st))

/-- the levels from the ghost level on, along the last-child chain (`ValR`) -/
def valRB (S : Schema) : Bool → Nat → List FItem → List Node → Bool
  | _, _, [], _ => true
  | mk, x, it :: rest, F =>
    match rest with
    | [] => leftOpenValidB S x F && levelRB S mk it F
    | nxt :: _ =>
      match F.getLast? with
      | some (.elem t _ m k) =>
        t == nxt.ty && leftOpenValidB S x F.dropLast && levelRB S mk it F && canonicalMarks S m &&
          valRB S true 0 rest k
      | _ => false

/-- the chain of `g` single nodes with canonical marks on top of `placed`; answers the fragment it leads to -/
def pureVB (S : Schema) : Nat → List Node → Option (List Node)
  | 0, c => some c
  | d + 1, [.elem _ _ m k] => if canonicalMarks S m then pureVB S d k else none
  | _ + 1, _ => none

/-- **`placed` is valid up to its open sides and the frontier knows it** (for some ghost level `g ≤ D`): the
    invariant behind payload validity, evaluated by the driver after every iteration (op `fitEmit`) -/
def FitState.validB (S : Schema) (D : Nat) (st : FitState) : Bool :=
  (List.range (D + 1)).any (fun g => decide (g < st.frontier.length) &&
    (match pureVB S g st.placed with
     | some G => valRB S false (D - g) (st.frontier.drop g) G
     | none => false))

/-- the invariants at the end of the loop (`none` = the loop is not reached or does not return) -/
def fitEndInv (S : Schema) (doc : Node) (f t : Nat) (sl : Slice) : Option Bool :=
  if f == t && sl.size == 0 then none
  else
    match doc.resolve f, doc.resolve t with
    | some rf, some rt =>
      match fitsTriviallyR S rf rt sl with
      | some false =>
        match fitInit S rf sl with
        | .ok st0 =>
          match fitLoop S (fitFuel S sl) st0 with
          | .ok st1 => some (st1.inStepB && st1.validB S rf.depth)
          | .error _ => none
        | .error _ => none
      | _ => none
    | _, _ => none

/-! ### loose validity of a request slice (Proofs/FitOpen.lean `UL`) as a decidable predicate -/

/-- the last child open `oe` levels: closed nodes valid; the nodes of the open spine carry canonical marks, have a type
    of the schema and children whose marks the type allows -/
def rlB (S : Schema) : Nat → List Node → Bool
  | 0, frag => S.checkKids frag
  | oe + 1, frag =>
    match frag.getLast? with
    | some (.elem t _ m k) =>
      S.checkKids frag.dropLast && canonicalMarks S m && decide (t < S.nodes.size) &&
        k.all (fun c => (S.nodeType t).allowsMarks c.marks) && rlB S oe k
    | _ => false

/-- the first child open `os` levels, the last child `oe` levels -/
def ulB (S : Schema) : Nat → Nat → List Node → Bool
  | 0, oe, frag => rlB S oe frag
  | os + 1, oe, .elem t _ m k :: rest =>
    canonicalMarks S m && decide (t < S.nodes.size) && k.all (fun c => (S.nodeType t).allowsMarks c.marks) &&
      (if rest.isEmpty then ulB S os (oe - 1) k else ulB S os 0 k && rlB S oe rest)
  | _ + 1, _, _ => false

/-- **the request slice is loosely valid** — what a slice cut from a valid document satisfies: its closed nodes are valid
    (`Node.check`), the nodes of its two open spines carry canonical marks, have a type of the schema and children
    whose marks that type allows (`openValid` of C01 does not ask the last of the spine nodes, which are validated when the
    slice is joined; the Fitter closes them itself) -/
def Slice.looseValid (S : Schema) (sl : Slice) : Bool := ulB S sl.openStart sl.openEnd sl.content

end PM
