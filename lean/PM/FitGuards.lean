/-
  PM/FitGuards.lean — decidable hypotheses of the payload-validity theorems about the Fitter
  (Props/C11.lean `insertInline_emits_valid_payload`); evaluated by the driver (op `fitEmit`).
-/
import PM.Fitter
namespace PM

/-- **every content position can be finished**: `fill_before(Fragment.empty, True)` answers (is not `None`)
    at the start state and at every state an edge leads to, for every node type.
    `close_frontier_node` silently skips the filling when it is `None` (`if add and add.child_count`), which
    leaves the closed node's content short of a valid end — the node it closes is then not valid. -/
def Schema.closableB (S : Schema) : Bool :=
  (List.range S.nodes.size).all (fun w =>
    (fillBeforeTypes S (S.dfa w) 0 [] true).isSome &&
    (List.range (S.dfa w).size).all (fun q => ((S.dfa w).edgesOf q).all (fun e =>
      (fillBeforeTypes S (S.dfa w) e.2 [] true).isSome)))

/-- the closed nodes of a request slice are valid (`Node.check`) — for a closed slice: all of its content -/
def Slice.closedValid (S : Schema) (sl : Slice) : Bool := S.checkKids sl.content

end PM
