/-
  PM/Content.lean — running a compiled content automaton (ContentMatch) and the validity
  predicates built on it (content.py: match_type, match_fragment, compatible, default_type;
  schema.py: valid_content, compatible_content; node.py: check, can_replace, can_replace_with,
  can_append, content_match_at).

  The automaton tables are data dumped from the running code (`NodeType.dfa`); C06 relates them to
  the content expression.
-/
import PM.Basic
import PM.Marks
namespace PM

abbrev Dfa := Array DfaState

def Dfa.edgesOf (d : Dfa) (q : Nat) : List (TypeId × Nat) :=
  match d[q]? with
  | some s => s.edges
  | none => []

def Dfa.validEnd (d : Dfa) (q : Nat) : Bool :=
  match d[q]? with
  | some s => s.validEnd
  | none => false

/-- `ContentMatch.match_type`: first edge labelled with the type -/
def Dfa.matchType (d : Dfa) (q : Nat) (t : TypeId) : Option Nat :=
  ((d.edgesOf q).find? (·.1 == t)).map (·.2)

/-- `ContentMatch.match_fragment` over a list of child types -/
def Dfa.run (d : Dfa) : Nat → List TypeId → Option Nat
  | q, [] => some q
  | q, t :: ts =>
    match d.matchType q t with
    | some q' => d.run q' ts
    | none => none

def Dfa.accepts (d : Dfa) (ts : List TypeId) : Bool :=
  match d.run 0 ts with
  | some q => d.validEnd q
  | none => false

def Schema.dfa (S : Schema) (t : TypeId) : Dfa := (S.nodeType t).dfa

def Schema.types (S : Schema) (kids : List Node) : List TypeId := kids.map S.tyOf

/-- `NodeType.valid_content` -/
def Schema.validContent (S : Schema) (t : TypeId) (kids : List Node) : Bool :=
  (S.dfa t).accepts (S.types kids) && kids.all (fun k => (S.nodeType t).allowsMarks k.marks)

/-- `ContentMatch.compatible`: the two start states share an edge label -/
def Dfa.compatible (a b : Dfa) : Bool :=
  (a.edgesOf 0).any (fun e => (b.edgesOf 0).any (fun e' => e.1 == e'.1))

/-- `NodeType.compatible_content` -/
def Schema.compatibleContent (S : Schema) (a b : TypeId) : Bool :=
  a == b || (S.dfa a).compatible (S.dfa b)

/-- `ContentMatch.default_type` -/
def Schema.generatable (S : Schema) (t : TypeId) : Bool :=
  let nt := S.nodeType t
  !(nt.isText || nt.attrs.any (fun a => !a.hasDefault))

def Schema.defaultType (S : Schema) (d : Dfa) (q : Nat) : Option TypeId :=
  ((d.edgesOf q).find? (fun e => S.generatable e.1)).map (·.1)

/-! ### Whole-document validity (`Node.check`) -/

mutual
def Schema.checkNode (S : Schema) : Node → Bool
  | .text _ m => canonicalMarks S m
  | .leaf t _ m => canonicalMarks S m && S.validContent t []
  | .elem t _ m kids =>
    S.validContent t kids && canonicalMarks S m && S.checkKids kids
def Schema.checkKids (S : Schema) : List Node → Bool
  | [] => true
  | n :: ns => S.checkNode n && S.checkKids ns
end

/-! ### can_replace family (child-index interfaces) -/

/-- `Node.content_match_at(index)`; `none` = "Called contentMatchAt on a node with invalid content" -/
def Schema.contentMatchAt (S : Schema) (t : TypeId) (kids : List Node) (index : Nat) : Option Nat :=
  (S.dfa t).run 0 (S.types (kids.take index))

/-- `Node.can_replace(from, to, replacement, start, end)`; `none` = ValueError from content_match_at -/
def Schema.canReplace (S : Schema) (t : TypeId) (kids : List Node) (from_ to : Nat)
    (repl : List Node) (start end_ : Nat) : Option Bool :=
  match S.contentMatchAt t kids from_ with
  | none => none
  | some q =>
    let mid := (repl.take end_).drop start
    match (S.dfa t).run q (S.types mid) with
    | none => some false
    | some q1 =>
      match (S.dfa t).run q1 (S.types (kids.drop to)) with
      | none => some false
      | some q2 =>
        some ((S.dfa t).validEnd q2 && mid.all (fun k => (S.nodeType t).allowsMarks k.marks))

/-- `Node.can_replace_with(from, to, type, marks)` -/
def Schema.canReplaceWith (S : Schema) (t : TypeId) (kids : List Node) (from_ to : Nat)
    (ty : TypeId) (marks : Marks) : Option Bool :=
  if !marks.isEmpty && !(S.nodeType t).allowsMarks marks then some false
  else
    match S.contentMatchAt t kids from_ with
    | none => none
    | some q =>
      match (S.dfa t).matchType q ty with
      | none => some false
      | some q1 =>
        match (S.dfa t).run q1 (S.types (kids.drop to)) with
        | none => some false
        | some q2 => some ((S.dfa t).validEnd q2)

/-- `Node.can_append(other)` -/
def Schema.canAppend (S : Schema) (t : TypeId) (kids : List Node) (ot : TypeId) (okids : List Node) :
    Option Bool :=
  if fsize okids != 0 then S.canReplace t kids kids.length kids.length okids 0 okids.length
  else some (S.compatibleContent t ot)

end PM
