/-
  PM/MapFold.lean — a history's mapping read as a fold (map.py: `Mapping.map` / `Mapping.map_result`
  of a mapping without mirrors, the only kind `Transform.mapping` ever is): the position is sent
  through the step maps left to right with the same association side, and the `deleted` flag is the
  disjunction of the flags met along the way.  `coveredFold` is the range-level reading of that flag:
  the token on the asked side of the position (followed along) lies in a replaced range.

  Core Lean only.
-/
import PM.Map
import PM.Step
import PM.StepWF
namespace PM

/-- left-to-right composition of step maps, one association side for all of them -/
def mapFold (ms : List StepMap) (assoc : Int) (pos : Int) : Int :=
  ms.foldl (fun q m => m.map q assoc) pos

/-- the deletion-info bits gathered along the way (`del_info |= result.del_info`) -/
def delFold : List StepMap → Int → Int → Nat → Nat
  | [], _, _, del => del
  | m :: ms, assoc, pos, del => delFold ms assoc (m.map pos assoc) (del ||| (m.mapResult pos assoc).delInfo)

/-- some map of the list reports `deleted` for the position as it arrives there -/
def deletedFold : List StepMap → Int → Int → Bool
  | [], _, _ => false
  | m :: ms, assoc, pos => (m.mapResult pos assoc).deleted || deletedFold ms assoc (m.map pos assoc)

/-- index of the token on the asked side of a position: the one before it for `assoc < 0`,
    the one after it otherwise -/
def sideTok (assoc pos : Int) : Int := if assoc < 0 then pos - 1 else pos

/-- the token on the asked side of `pos` lies in a replaced range of the map (stored orientation,
    i.e. the map of a step as `get_map` returns it) -/
def StepMap.coversSide (m : StepMap) (assoc pos : Int) : Bool :=
  m.ranges.any (fun r => decide (r.1 ≤ sideTok assoc pos) && decide (sideTok assoc pos < r.1 + r.2.1))

/-- … of some map of the list, the position followed along -/
def coveredFold : List StepMap → Int → Int → Bool
  | [], _, _ => false
  | m :: ms, assoc, pos => m.coversSide assoc pos || coveredFold ms assoc (m.map pos assoc)

/-- no range of the map ends exactly where a range with a non-empty old side starts (the ranges of
    a replace-around step around an empty gap do, unless nothing is deleted after the gap) -/
def StepMap.noTouch (m : StepMap) : Bool :=
  m.ranges.all (fun r => m.ranges.all (fun r' => decide (r'.2.1 ≤ 0) || decide (r.1 + r.2.1 ≠ r'.1)))

/-! ### the side conditions of the C03 theorems on a replace-around step, as executable guards -/

/-- well-formed payload and ordered positions (`StepWF` and `StepOrdered` of PM/StepWF.lean); what
    the left-side theorems ask of a replace-around step -/
def aroundWFB (st : Step) : Bool := StepWF st && StepOrdered st

/-- … and not the touching-empty-gap shape (`gapFrom = gapTo = to` with slice content after the
    insertion point); what the right-side theorems ask -/
def aroundOKB : Step → Bool
  | .replaceAround f t gf gt sl ins b =>
    aroundWFB (.replaceAround f t gf gt sl ins b) &&
      (decide (gf < gt) || decide (gt < t) || decide ((ins : Int) = sl.size))
  | _ => true

/-- the gap is not empty, or nothing is deleted after it (the step's map is `noTouch`) -/
def gapSepB : Step → Bool
  | .replaceAround _ t gf gt _ _ _ => decide (gf < gt) || decide (gt = t)
  | _ => true

end PM
