/-
  PM/SchemaBuild.lean — `Schema(spec)` as a whole: the table compiler of `PM/SchemaCompile.lean` and the
  content-expression compiler of `PM/Compile.lean` joined in the order of `Schema.__init__`
  (prosemirror/model/schema.py) and `ContentMatch.parse` (prosemirror/model/content.py):

  1. `NodeType.compile` (top node / `text` / attributes on `text`: `ValueError`s) and `MarkType.compile`;
  2. for every node type, in declaration order:
       a node name that is also a mark name (`ValueError`);
       the content expression, looked up in `content_expr_cache` (keyed by the expression string) or parsed
       against the node-type table (`TokenStream`, `parse_expr`, "Unexpected trailing text"), compiled
       (`nfa`, `dfa`) and checked (`check_for_dead_ends`);
       `inline_content`, then the `marks` expression (`gather_marks`, `SyntaxError`);
  3. for every mark type, `excludes` (`gather_marks`).

  Which refusal comes first when several apply is the order of this text.  The result is the record
  `PM/Basic.lean: Schema` with the automata numbered breadth-first (the numbering of the harness' dump; the
  real object is a graph without numbers).
-/
import PM.Basic
import PM.Content
import PM.Regex
import PM.Compile
import PM.SchemaCompile
namespace PM.SchemaBuild
open PM PM.SchemaCompile

/-- what `Schema(spec)` raises -/
inductive BuildErr where
  | table (e : CompileErr)   -- the refusals of the table compiler (`ValueError`s, `SyntaxError` of `gather_marks`)
  | content (e : CErr)       -- the content-expression parser refused (or died on) an expression
  | deadEnd                  -- `SyntaxError` "Only non-generatable nodes (…) in a required position"
deriving Repr, Inhabited, DecidableEq

/-- what `TokenStream` reads from `node_types`: name, `NodeType.groups`, `is_inline`, in schema order -/
def nameTable (spec : Spec) : List NameInfo :=
  spec.nodes.map (fun ns => ⟨ns.name, ns.groups, ns.isInline⟩)

/-- `not (node.is_text or node.has_required_attrs())` of the node type with id `t` -/
def specGen (spec : Spec) (t : Nat) : Bool :=
  match spec.nodes[t]? with
  | some ns => !(ns.name == "text" || hasRequiredAttrs (initAttrs ns.attrs))
  | none => true

/-- `ContentMatch.parse(string, schema.nodes)` -/
def contentMatch (spec : Spec) (s : String) : Except BuildErr Dfa :=
  match parseC (nameTable spec) s with
  | .error e => .error (.content e)
  | .ok none => .ok emptyMatch
  | .ok (some e) =>
    let d := (dfa (nfa e)).bfs
    if d.hasDeadEnd (specGen spec) then .error .deadEnd else .ok d

/-- `content_expr_cache` -/
abbrev Cache := List (String × Dfa)

/-- `if content_expr not in content_expr_cache: content_expr_cache[content_expr] = ContentMatch.parse(…)`, then the lookup -/
def cachedMatch (spec : Spec) (cache : Cache) (s : String) : Except BuildErr (Dfa × Cache) :=
  match cache.find? (fun p => p.1 == s) with
  | some p => .ok (p.2, cache)
  | none =>
    match contentMatch spec s with
    | .error e => .error e
    | .ok d => .ok (d, cache ++ [(s, d)])

/-- the node loop of `Schema.__init__` -/
def buildNodes (spec : Spec) : List NodeSpec → Cache → Except BuildErr (List NodeType)
  | [], _ => .ok []
  | ns :: rest, cache =>
    if spec.marks.any (fun m => m.name == ns.name) then .error (.table .nameClash)
    else
      match cachedMatch spec cache ns.content with
      | .error e => .error e
      | .ok (d, cache) =>
        match compileNode spec [d] 0 ns with
        | .error e => .error (.table e)
        | .ok nt =>
          match buildNodes spec rest cache with
          | .error e => .error e
          | .ok nts => .ok (nt :: nts)

/-- `Schema(spec)` -/
def buildSchema (spec : Spec) : Except BuildErr Schema :=
  match spec.nodes.findIdx? (fun n => n.name == spec.topName) with
  | none => .error (.table .missingTop)
  | some top =>
    match spec.nodes.findIdx? (fun n => n.name == "text") with
    | none => .error (.table .missingText)
    | some textTy =>
      if (spec.nodes[textTy]?.map (fun n => n.attrs.isEmpty)).getD true = false then .error (.table .textAttrs)
      else
        match buildNodes spec spec.nodes [] with
        | .error e => .error e
        | .ok nodes =>
          match seqIdx (compileMark spec) 0 spec.marks with
          | .error e => .error (.table e)
          | .ok marks => .ok { nodes := nodes.toArray, marks := marks.toArray, top := top, textTy := textTy }

end PM.SchemaBuild
