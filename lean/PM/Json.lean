/-
  PM/Json.lean — model of the JSON forms (Node/Fragment/Slice/Mark/Step .to_json / .from_json,
  compute_attrs defaulting, the step-type registry).

  `J` is plain JSON data.  Text is carried as its UTF-16 unit list (`J.text`) and attribute values
  as canonical JSON text (`J.raw`): Python's own `str`/`json` encoding is not modelled (the harness
  really passes everything through `json.dumps`/`json.loads`).
-/
import PM.Basic
import PM.Marks
import PM.Replace
import PM.Step
namespace PM

inductive J where
  | null
  | bool (b : Bool)
  | num (n : Int)
  | str (s : String)
  | text (u : List Nat)
  | raw (s : String)
  | arr (l : List J)
  | obj (kv : List (String × J))
deriving Repr, Inhabited

def J.get (j : J) (k : String) : Option J :=
  match j with
  | .obj kv => (kv.find? (·.1 == k)).map (·.2)
  | _ => none

/-- Python truthiness of a decoded JSON value (`if not json_data`, `.get("marks")`) -/
def J.truthy : J → Bool
  | .null => false
  | .bool b => b
  | .num n => n != 0
  | .str s => !s.isEmpty
  | .text u => !u.isEmpty
  | .raw s => !(s == "null" || s == "false" || s == "0" || s == "\"\"" || s == "[]" || s == "{}")
  | .arr l => !l.isEmpty
  | .obj kv => !kv.isEmpty

/-! ### to_json -/

def attrsToJ (a : Attrs) : J := .obj (a.map (fun (k, v) => (k, J.raw v)))

def Schema.markName (S : Schema) (t : MarkTypeId) : String := (S.markType t).name
def Schema.nodeName (S : Schema) (t : TypeId) : String := (S.nodeType t).name

/-- `Mark.to_json`: type and attrs, always both -/
def Schema.markToJ (S : Schema) (m : Mark) : J :=
  .obj [("type", .str (S.markName m.ty)), ("attrs", attrsToJ m.attrs)]

def Schema.marksField (S : Schema) (ms : Marks) : List (String × J) :=
  if ms.isEmpty then [] else [("marks", .arr (ms.map S.markToJ))]

mutual
/-- `Node.to_json` / `TextNode.to_json`: attrs, content and marks only when non-empty -/
def Schema.nodeToJ (S : Schema) : Node → J
  | .text s m => .obj ([("type", .str "text")] ++ S.marksField m ++ [("text", .text s)])
  | .leaf t a m =>
    .obj ([("type", .str (S.nodeName t))] ++ (if a.isEmpty then [] else [("attrs", attrsToJ a)]) ++ S.marksField m)
  | .elem t a m kids =>
    .obj ([("type", .str (S.nodeName t))] ++ (if a.isEmpty then [] else [("attrs", attrsToJ a)])
      ++ (if fsize kids = 0 then [] else [("content", .arr (S.kidsToJ kids))]) ++ S.marksField m)
def Schema.kidsToJ (S : Schema) : List Node → List J
  | [] => []
  | n :: ns => S.nodeToJ n :: S.kidsToJ ns
end

/-- `Fragment.to_json`: `None` when empty -/
def Schema.fragToJ (S : Schema) (l : List Node) : J := if l.isEmpty then .null else .arr (S.kidsToJ l)

/-- `Slice.to_json`: `None` when the content has size 0; open depths only when positive -/
def Schema.sliceToJ (S : Schema) (sl : Slice) : J :=
  if fsize sl.content = 0 then .null
  else .obj ([("content", S.fragToJ sl.content)]
    ++ (if sl.openStart > 0 then [("openStart", .num sl.openStart)] else [])
    ++ (if sl.openEnd > 0 then [("openEnd", .num sl.openEnd)] else []))

def structField (b : Bool) : List (String × J) := if b then [("structure", .bool true)] else []

/-- `Step.to_json` for the eight kinds; the slice is emitted whenever its content is non-empty -/
def Schema.stepToJ (S : Schema) : Step → J
  | .replace f t sl st =>
    .obj ([("stepType", .str "replace"), ("from", .num f), ("to", .num t)]
      ++ (if fsize sl.content ≠ 0 then [("slice", S.sliceToJ sl)] else []) ++ structField st)
  | .replaceAround f t gf gt sl ins st =>
    .obj ([("stepType", .str "replaceAround"), ("from", .num f), ("to", .num t), ("gapFrom", .num gf),
      ("gapTo", .num gt), ("insert", .num ins)]
      ++ (if fsize sl.content ≠ 0 then [("slice", S.sliceToJ sl)] else []) ++ structField st)
  | .addMark f t m => .obj [("stepType", .str "addMark"), ("mark", S.markToJ m), ("from", .num f), ("to", .num t)]
  | .removeMark f t m => .obj [("stepType", .str "removeMark"), ("mark", S.markToJ m), ("from", .num f), ("to", .num t)]
  | .addNodeMark p m => .obj [("stepType", .str "addNodeMark"), ("pos", .num p), ("mark", S.markToJ m)]
  | .removeNodeMark p m => .obj [("stepType", .str "removeNodeMark"), ("pos", .num p), ("mark", S.markToJ m)]
  | .attr p n v => .obj [("stepType", .str "attr"), ("pos", .num p), ("attr", .str n), ("value", .raw v)]
  | .docAttr n v => .obj [("stepType", .str "docAttr"), ("attr", .str n), ("value", .raw v)]

/-! ### from_json

  The decoders are modelled for *arbitrary* JSON data, following the Python code branch by branch:
  `.error .valueError` is a `ValueError` raised by the library (or by `json.loads`), `.error .internal`
  is the `KeyError` / `TypeError` / `AttributeError` the code dies with on data of the wrong shape
  (a missing key read with `json_data[k]`, `.get` on something that is not a dict, an unhashable
  value used as a dictionary key).  Outside the model (documented at each place):
  * a JSON *string* where a node / fragment / step is expected is handed to `json.loads` by the code;
    the model answers `valueError`, which is right for every string that is not itself JSON text;
  * a non-string `type` of a node is turned into its `str()` by the code and looked up; the model
    answers `valueError` (no node type is named like the `str()` of a non-string);
  * negative integers in position fields are accepted by the code; positions are naturals here. -/

def attrsOfJ (j : Option J) : Attrs :=
  match j with
  | some (.obj kv) => kv.filterMap (fun (k, v) => match v with
      | .raw s => some (k, s)
      | _ => none)
  | _ => []

/-- `compute_attrs(decls, json_data.get("attrs"))`: a missing or falsy value (`null`, `{}`, `[]`, `0`,
    `""`, `false`) means "nothing given"; a truthy value that is not a dict has no `.get`
    (AttributeError) — reached as soon as one attribute is declared -/
def computeAttrsJ (decls : List AttrDecl) (v : Option J) : Res Attrs :=
  match v with
  | none => computeAttrs decls []
  | some x =>
    if !x.truthy then computeAttrs decls [] else
    match x with
    | .obj kv => computeAttrs decls (attrsOfJ (some (.obj kv)))
    | _ => if decls.isEmpty then .ok [] else .error .internal

def Schema.findMark (S : Schema) (name : String) : Option MarkTypeId :=
  (List.range S.marks.size).find? (fun i => (S.markType i).name == name)

def Schema.findNode (S : Schema) (name : String) : Option TypeId :=
  (List.range S.nodes.size).find? (fun i => (S.nodeType i).name == name)

/-- `Mark.from_json`: falsy input → ValueError; `json_data["type"]` on a non-dict → TypeError, on a
    dict without the key → KeyError; `schema.marks.get(name)` with a list / dict as name → TypeError
    (unhashable), with any other non-name → no such mark (ValueError) -/
def Schema.markOfJ (S : Schema) (j : J) : Res Mark :=
  if !j.truthy then .error .valueError else
  match j with
  | .obj kv =>
    match (J.obj kv).get "type" with
    | none => .error .internal
    | some (.str name) =>
      match S.findMark name with
      | none => .error .valueError
      | some t => (computeAttrsJ (S.markType t).attrs ((J.obj kv).get "attrs")).map (fun a => ⟨t, a⟩)
    | some (.arr _) => .error .internal
    | some (.obj _) => .error .internal
    | some _ => .error .valueError
  | _ => .error .internal

def Schema.marksOfJ (S : Schema) (j : Option J) : Res Marks :=
  match j with
  | none => .ok []
  | some v =>
    if !v.truthy then .ok [] else
    match v with
    | .arr l => (l.mapM S.markOfJ).map setFrom
    | _ => .error .valueError

def asciiUnits (s : String) : List Nat := s.toList.map Char.toNat

/-- the UTF-16 units of Python's `str(value)` as `Node.from_json` applies it to `json_data["text"]`:
    exact for strings, `None`, booleans and integers; for lists, dicts and floats only "non-empty"
    is modelled (the placeholder `?`) -/
def pyStrUnits : J → List Nat
  | .text u => u
  | .str s => asciiUnits s
  | .null => asciiUnits "None"
  | .bool true => asciiUnits "True"
  | .bool false => asciiUnits "False"
  | .num n => asciiUnits (toString n)
  | _ => asciiUnits "?"

mutual
/-- `Node.from_json`; `fuel` bounds the nesting depth of the JSON (the lookups by key hide the
    structural descent from the termination checker).  Order of the code: falsy → ValueError;
    marks; `json_data["type"]` (KeyError); text nodes: `json_data["text"]` (KeyError), `str()` of it,
    empty → ValueError; other nodes: content (`Fragment.from_json`), then the type name, then attrs. -/
def Schema.nodeOfJ (S : Schema) : Nat → J → Res Node
  | 0, _ => .error .internal
  | fuel + 1, .obj kv =>
    let j := J.obj kv
    if kv.isEmpty then .error .valueError else
    match S.marksOfJ (j.get "marks") with
    | .error e => .error e
    | .ok marks =>
      match j.get "type" with
      | none => .error .internal
      | some (.str "text") =>
        match j.get "text" with
        | none => .error .internal
        | some v => if (pyStrUnits v).isEmpty then .error .valueError else .ok (.text (pyStrUnits v) marks)
      | some ty =>
        let content : Res (List Node) :=
          match j.get "content" with
          | none => .ok []
          | some c =>
            if !c.truthy then .ok [] else
            match c with
            | .arr l => S.kidsOfJ fuel l
            | _ => .error .valueError
        match content with
        | .error e => .error e
        | .ok kids =>
          match ty with
          | .str name =>
            match S.findNode name with
            | none => .error .valueError
            | some t =>
              match computeAttrsJ (S.nodeType t).attrs (j.get "attrs") with
              | .error e => .error e
              | .ok a => if (S.nodeType t).isLeaf then .ok (.leaf t a marks) else .ok (.elem t a marks kids)
          | _ => .error .valueError
  | _ + 1, .str _ => .error .valueError
  | _ + 1, .text _ => .error .valueError
  | _ + 1, j => if !j.truthy then .error .valueError else .error .internal
def Schema.kidsOfJ (S : Schema) : Nat → List J → Res (List Node)
  | _, [] => .ok []
  | fuel, j :: js =>
    match S.nodeOfJ fuel j with
    | .error e => .error e
    | .ok n =>
      match S.kidsOfJ fuel js with
      | .error e => .error e
      | .ok ns => .ok (n :: ns)
end

/-- `Fragment.from_json`: falsy → empty; a list → its nodes; anything else → ValueError (a string
    goes through `json.loads` first) -/
def Schema.fragOfJ (S : Schema) (fuel : Nat) (j : Option J) : Res (List Node) :=
  match j with
  | none => .ok []
  | some v =>
    if !v.truthy then .ok [] else
    match v with
    | .arr l => S.kidsOfJ fuel l
    | _ => .error .valueError

/-- `json_data.get(k, 0) or 0` followed by `isinstance(…, int)` (`True` is an `int`) -/
def openOfJ (j : Option J) : Option Nat :=
  match j with
  | none => some 0
  | some v =>
    if !v.truthy then some 0 else
    match v with
    | .num n => some n.toNat
    | .bool _ => some 1
    | _ => none

/-- `Slice.from_json`: falsy → empty slice; `.get` on a truthy non-dict → AttributeError -/
def Schema.sliceOfJ (S : Schema) (fuel : Nat) (j : Option J) : Res Slice :=
  match j with
  | none => .ok Slice.empty
  | some v =>
    if !v.truthy then .ok Slice.empty else
    match v with
    | .obj kv =>
      match openOfJ ((J.obj kv).get "openStart"), openOfJ ((J.obj kv).get "openEnd") with
      | some a, some b => (S.fragOfJ fuel ((J.obj kv).get "content")).map (fun c => ⟨c, a, b⟩)
      | _, _ => .error .valueError
    | _ => .error .internal

/-- the step registry: published names of the eight built-in step types -/
def stepIds : List String :=
  ["replace", "replaceAround", "addMark", "removeMark", "addNodeMark", "removeNodeMark", "attr", "docAttr"]

def boolOfJ (j : Option J) : Bool :=
  match j with
  | some v => v.truthy
  | none => false

/-- a position field read as `json_data[k]` and tested with `isinstance(…, int)`:
    missing → KeyError, not an int → ValueError (`True`/`False` are ints) -/
def intField (j : J) (k : String) (cont : Nat → Res α) : Res α :=
  match j.get k with
  | none => .error .internal
  | some (.num n) => if n ≥ 0 then cont n.toNat else .error .valueError
  | some (.bool b) => cont (if b then 1 else 0)
  | some _ => .error .valueError

/-- `schema.mark_from_json(json_data["mark"])` -/
def Schema.markField (S : Schema) (j : J) (cont : Mark → Step) : Res Step :=
  match j.get "mark" with
  | none => .error .internal
  | some mj => (S.markOfJ mj).map cont

/-- `Step.from_json` (dispatch on `stepType` through the registry).  A string is passed through
    `json.loads` (here: not JSON text → ValueError); falsy data or a falsy `stepType` → ValueError;
    `.get` on a truthy non-dict → AttributeError; a list / dict as `stepType` is unhashable
    (TypeError); the fields of each step kind are read in the order of the code. -/
def Schema.stepOfJ (S : Schema) (fuel : Nat) (j : J) : Res Step :=
  match j with
  | .str _ => .error .valueError
  | .text _ => .error .valueError
  | .obj kv =>
    let j := J.obj kv
    if kv.isEmpty then .error .valueError else
    match j.get "stepType" with
    | none => .error .valueError
    | some (.str ty) =>
      if !stepIds.contains ty then .error .valueError else
      match ty with
      | "replace" =>
        intField j "from" fun f => intField j "to" fun t =>
          (S.sliceOfJ fuel (j.get "slice")).map (fun sl => .replace f t sl (boolOfJ (j.get "structure")))
      | "replaceAround" =>
        intField j "from" fun f => intField j "to" fun t => intField j "gapFrom" fun gf =>
          intField j "gapTo" fun gt => intField j "insert" fun ins =>
            (S.sliceOfJ fuel (j.get "slice")).map
              (fun sl => .replaceAround f t gf gt sl ins (boolOfJ (j.get "structure")))
      | "addMark" =>
        intField j "from" fun f => intField j "to" fun t => S.markField j (fun m => .addMark f t m)
      | "removeMark" =>
        intField j "from" fun f => intField j "to" fun t => S.markField j (fun m => .removeMark f t m)
      | "addNodeMark" => intField j "pos" fun p => S.markField j (fun m => .addNodeMark p m)
      | "removeNodeMark" => intField j "pos" fun p => S.markField j (fun m => .removeNodeMark p m)
      | "attr" =>
        intField j "pos" fun p =>
          match j.get "attr" with
          | none => .error .internal
          | some (.str n) =>
            match j.get "value" with
            | none => .error .internal
            | some (.raw v) => .ok (.attr p n v)
            | some _ => .error .valueError     -- not produced by the wire decoding (values are raw)
          | some _ => .error .valueError
      | "docAttr" =>
        match j.get "attr" with
        | none => .error .internal
        | some (.str n) =>
          match j.get "value" with
          | none => .error .internal
          | some (.raw v) => .ok (.docAttr n v)
          | some _ => .error .valueError
        | some _ => .error .valueError
      | _ => .error .valueError
    | some (.arr l) => if l.isEmpty then .error .valueError else .error .internal
    | some (.obj o) => if o.isEmpty then .error .valueError else .error .internal
    | some _ => .error .valueError
  | j => if !j.truthy then .error .valueError else .error .internal

end PM
