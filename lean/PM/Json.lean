/-
  PM/Json.lean — model of the JSON forms (Node/Fragment/Slice/Mark/Step .to_json / .from_json,
  compute_attrs defaulting, the step-type registry).

  `J` is plain JSON data.  Text is carried as its UTF-16 unit list (`J.text`) and attribute values
  as canonical JSON text (`J.raw`): Python's own `str`/`json` encoding is not modelled (the harness
  really passes everything through `json.dumps`/`json.loads`).
-/
import PM.Basic
import PM.Marks
import PM.Replace
import PM.Step
namespace PM

inductive J where
  | null
  | bool (b : Bool)
  | num (n : Int)
  | str (s : String)
  | text (u : List Nat)
  | raw (s : String)
  | arr (l : List J)
  | obj (kv : List (String × J))
deriving Repr, Inhabited

def J.get (j : J) (k : String) : Option J :=
  match j with
  | .obj kv => (kv.find? (·.1 == k)).map (·.2)
  | _ => none

/-- Python truthiness of a decoded JSON value (`if not json_data`, `.get("marks")`) -/
def J.truthy : J → Bool
  | .null => false
  | .bool b => b
  | .num n => n != 0
  | .str s => !s.isEmpty
  | .text u => !u.isEmpty
  | .raw s => !(s == "null" || s == "false" || s == "0" || s == "\"\"" || s == "[]" || s == "{}")
  | .arr l => !l.isEmpty
  | .obj kv => !kv.isEmpty

/-! ### to_json -/

def attrsToJ (a : Attrs) : J := .obj (a.map (fun (k, v) => (k, J.raw v)))

def Schema.markName (S : Schema) (t : MarkTypeId) : String := (S.markType t).name
def Schema.nodeName (S : Schema) (t : TypeId) : String := (S.nodeType t).name

/-- `Mark.to_json`: type and attrs, always both -/
def Schema.markToJ (S : Schema) (m : Mark) : J :=
  .obj [("type", .str (S.markName m.ty)), ("attrs", attrsToJ m.attrs)]

def Schema.marksField (S : Schema) (ms : Marks) : List (String × J) :=
  if ms.isEmpty then [] else [("marks", .arr (ms.map S.markToJ))]

mutual
/-- `Node.to_json` / `TextNode.to_json`: attrs, content and marks only when non-empty -/
def Schema.nodeToJ (S : Schema) : Node → J
  | .text s m => .obj ([("type", .str "text")] ++ S.marksField m ++ [("text", .text s)])
  | .leaf t a m =>
    .obj ([("type", .str (S.nodeName t))] ++ (if a.isEmpty then [] else [("attrs", attrsToJ a)]) ++ S.marksField m)
  | .elem t a m kids =>
    .obj ([("type", .str (S.nodeName t))] ++ (if a.isEmpty then [] else [("attrs", attrsToJ a)])
      ++ (if fsize kids = 0 then [] else [("content", .arr (S.kidsToJ kids))]) ++ S.marksField m)
def Schema.kidsToJ (S : Schema) : List Node → List J
  | [] => []
  | n :: ns => S.nodeToJ n :: S.kidsToJ ns
end

/-- `Fragment.to_json`: `None` when empty -/
def Schema.fragToJ (S : Schema) (l : List Node) : J := if l.isEmpty then .null else .arr (S.kidsToJ l)

/-- `Slice.to_json`: `None` when the content has size 0; open depths only when positive -/
def Schema.sliceToJ (S : Schema) (sl : Slice) : J :=
  if fsize sl.content = 0 then .null
  else .obj ([("content", S.fragToJ sl.content)]
    ++ (if sl.openStart > 0 then [("openStart", .num sl.openStart)] else [])
    ++ (if sl.openEnd > 0 then [("openEnd", .num sl.openEnd)] else []))

def structField (b : Bool) : List (String × J) := if b then [("structure", .bool true)] else []

/-- `Step.to_json` for the eight kinds; the slice is emitted whenever its content is non-empty -/
def Schema.stepToJ (S : Schema) : Step → J
  | .replace f t sl st =>
    .obj ([("stepType", .str "replace"), ("from", .num f), ("to", .num t)]
      ++ (if fsize sl.content ≠ 0 then [("slice", S.sliceToJ sl)] else []) ++ structField st)
  | .replaceAround f t gf gt sl ins st =>
    .obj ([("stepType", .str "replaceAround"), ("from", .num f), ("to", .num t), ("gapFrom", .num gf),
      ("gapTo", .num gt), ("insert", .num ins)]
      ++ (if fsize sl.content ≠ 0 then [("slice", S.sliceToJ sl)] else []) ++ structField st)
  | .addMark f t m => .obj [("stepType", .str "addMark"), ("mark", S.markToJ m), ("from", .num f), ("to", .num t)]
  | .removeMark f t m => .obj [("stepType", .str "removeMark"), ("mark", S.markToJ m), ("from", .num f), ("to", .num t)]
  | .addNodeMark p m => .obj [("stepType", .str "addNodeMark"), ("pos", .num p), ("mark", S.markToJ m)]
  | .removeNodeMark p m => .obj [("stepType", .str "removeNodeMark"), ("pos", .num p), ("mark", S.markToJ m)]
  | .attr p n v => .obj [("stepType", .str "attr"), ("pos", .num p), ("attr", .str n), ("value", .raw v)]
  | .docAttr n v => .obj [("stepType", .str "docAttr"), ("attr", .str n), ("value", .raw v)]

/-! ### from_json -/

def attrsOfJ (j : Option J) : Attrs :=
  match j with
  | some (.obj kv) => kv.filterMap (fun (k, v) => match v with
      | .raw s => some (k, s)
      | _ => none)
  | _ => []

def Schema.findMark (S : Schema) (name : String) : Option MarkTypeId :=
  (List.range S.marks.size).find? (fun i => (S.markType i).name == name)

def Schema.findNode (S : Schema) (name : String) : Option TypeId :=
  (List.range S.nodes.size).find? (fun i => (S.nodeType i).name == name)

/-- `Mark.from_json` -/
def Schema.markOfJ (S : Schema) (j : J) : Res Mark :=
  if !j.truthy then .error .valueError else
  match j.get "type" with
  | some (.str name) =>
    match S.findMark name with
    | none => .error .valueError
    | some t => (computeAttrs (S.markType t).attrs (attrsOfJ (j.get "attrs"))).map (fun a => ⟨t, a⟩)
  | _ => .error .internal

def Schema.marksOfJ (S : Schema) (j : Option J) : Res Marks :=
  match j with
  | none => .ok []
  | some v =>
    if !v.truthy then .ok [] else
    match v with
    | .arr l => (l.mapM S.markOfJ).map setFrom
    | _ => .error .valueError

mutual
/-- `Node.from_json`; `fuel` bounds the nesting depth of the JSON (the lookups by key hide the
    structural descent from the termination checker) -/
def Schema.nodeOfJ (S : Schema) : Nat → J → Res Node
  | 0, _ => .error .internal
  | fuel + 1, .obj kv =>
    let j := J.obj kv
    if kv.isEmpty then .error .valueError else
    match S.marksOfJ (j.get "marks") with
    | .error e => .error e
    | .ok marks =>
      match j.get "type" with
      | some (.str "text") =>
        match j.get "text" with
        | some (.text u) => if u.isEmpty then .error .valueError else .ok (.text u marks)
        | _ => .error .internal
      | some (.str name) =>
        match S.findNode name with
        | none => .error .valueError
        | some t =>
          let content : Res (List Node) :=
            match j.get "content" with
            | some (.arr l) => S.kidsOfJ fuel l
            | some .null => .ok []
            | none => .ok []
            | _ => .error .valueError
          match content with
          | .error e => .error e
          | .ok kids =>
            match computeAttrs (S.nodeType t).attrs (attrsOfJ (j.get "attrs")) with
            | .error e => .error e
            | .ok a => if (S.nodeType t).isLeaf then .ok (.leaf t a marks) else .ok (.elem t a marks kids)
      | _ => .error .internal
  | _ + 1, _ => .error .valueError
def Schema.kidsOfJ (S : Schema) : Nat → List J → Res (List Node)
  | _, [] => .ok []
  | fuel, j :: js =>
    match S.nodeOfJ fuel j with
    | .error e => .error e
    | .ok n =>
      match S.kidsOfJ fuel js with
      | .error e => .error e
      | .ok ns => .ok (n :: ns)
end

/-- `Fragment.from_json` -/
def Schema.fragOfJ (S : Schema) (fuel : Nat) (j : Option J) : Res (List Node) :=
  match j with
  | none => .ok []
  | some v =>
    if !v.truthy then .ok [] else
    match v with
    | .arr l => S.kidsOfJ fuel l
    | _ => .error .valueError

def natOfJ (j : Option J) : Option Nat :=
  match j with
  | some (.num n) => if n ≥ 0 then some n.toNat else none
  | _ => none

/-- `Slice.from_json` -/
def Schema.sliceOfJ (S : Schema) (fuel : Nat) (j : Option J) : Res Slice :=
  match j with
  | none => .ok Slice.empty
  | some v =>
    if !v.truthy then .ok Slice.empty else
    let os := match v.get "openStart" with
      | some (.num n) => some n.toNat
      | none => some 0
      | some .null => some 0
      | _ => none
    let oe := match v.get "openEnd" with
      | some (.num n) => some n.toNat
      | none => some 0
      | some .null => some 0
      | _ => none
    match os, oe with
    | some a, some b => (S.fragOfJ fuel (v.get "content")).map (fun c => ⟨c, a, b⟩)
    | _, _ => .error .valueError

/-- the step registry: published names of the eight built-in step types -/
def stepIds : List String :=
  ["replace", "replaceAround", "addMark", "removeMark", "addNodeMark", "removeNodeMark", "attr", "docAttr"]

def boolOfJ (j : Option J) : Bool :=
  match j with
  | some v => v.truthy
  | none => false

/-- `Step.from_json` (dispatch on `stepType` through the registry) -/
def Schema.stepOfJ (S : Schema) (fuel : Nat) (j : J) : Res Step :=
  match j.get "stepType" with
  | some (.str ty) =>
    if !stepIds.contains ty then .error .valueError else
    match ty with
    | "replace" =>
      match natOfJ (j.get "from"), natOfJ (j.get "to") with
      | some f, some t => (S.sliceOfJ fuel (j.get "slice")).map (fun sl => .replace f t sl (boolOfJ (j.get "structure")))
      | _, _ => .error .valueError
    | "replaceAround" =>
      match natOfJ (j.get "from"), natOfJ (j.get "to"), natOfJ (j.get "gapFrom"), natOfJ (j.get "gapTo"), natOfJ (j.get "insert") with
      | some f, some t, some gf, some gt, some ins =>
        (S.sliceOfJ fuel (j.get "slice")).map (fun sl => .replaceAround f t gf gt sl ins (boolOfJ (j.get "structure")))
      | _, _, _, _, _ => .error .valueError
    | "addMark" =>
      match natOfJ (j.get "from"), natOfJ (j.get "to"), j.get "mark" with
      | some f, some t, some mj => (S.markOfJ mj).map (fun m => .addMark f t m)
      | _, _, _ => .error .valueError
    | "removeMark" =>
      match natOfJ (j.get "from"), natOfJ (j.get "to"), j.get "mark" with
      | some f, some t, some mj => (S.markOfJ mj).map (fun m => .removeMark f t m)
      | _, _, _ => .error .valueError
    | "addNodeMark" =>
      match natOfJ (j.get "pos"), j.get "mark" with
      | some p, some mj => (S.markOfJ mj).map (fun m => .addNodeMark p m)
      | _, _ => .error .valueError
    | "removeNodeMark" =>
      match natOfJ (j.get "pos"), j.get "mark" with
      | some p, some mj => (S.markOfJ mj).map (fun m => .removeNodeMark p m)
      | _, _ => .error .valueError
    | "attr" =>
      match natOfJ (j.get "pos"), j.get "attr", j.get "value" with
      | some p, some (.str n), some (.raw v) => .ok (.attr p n v)
      | _, _, _ => .error .valueError
    | "docAttr" =>
      match j.get "attr", j.get "value" with
      | some (.str n), some (.raw v) => .ok (.docAttr n v)
      | _, _ => .error .valueError
    | _ => .error .valueError
  | _ => .error .valueError

end PM
