/-
  PM/Transform.lean — the bookkeeping of `Transform` (transform.py: step / maybe_step / add_step):
  the current document, the recorded steps, the documents before each step, and the mapping
  (list of step maps).  High-level operations only ever go through `maybe_step`/`step`.
-/
import PM.Step
namespace PM

structure Tr where
  doc   : Node
  steps : List Step := []
  docs  : List Node := []
  maps  : List StepMap := []
deriving Inhabited

def Tr.init (doc : Node) : Tr := { doc := doc }

/-- `Transform.before` -/
def Tr.before (tr : Tr) : Node := tr.docs.headD tr.doc

/-- `add_step` -/
def Tr.addStep (tr : Tr) (st : Step) (doc : Node) : Tr :=
  { doc := doc, steps := tr.steps ++ [st], docs := tr.docs ++ [tr.doc], maps := tr.maps ++ [st.getMap] }

/-- `maybe_step`: record the step iff it applies; a failed result or a raised error leaves the
    transform untouched (`step` additionally raises TransformError, which callers see as a rejected
    operation) -/
def Tr.maybeStep (S : Schema) (tr : Tr) (st : Step) : Tr :=
  match S.apply st tr.doc with
  | .ok d => tr.addStep st d
  | .error _ => tr

/-- a history: any finite sequence of attempted steps -/
def Tr.run (S : Schema) (tr : Tr) (sts : List Step) : Tr := sts.foldl (Tr.maybeStep S) tr

end PM
