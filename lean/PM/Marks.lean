/-
  PM/Marks.lean — model of prosemirror/model/mark.py (Mark.add_to_set, remove_from_set, is_in_set,
  same_set, set_from) and of the mark-related parts of schema.py (MarkType.excludes / is_in_set /
  remove_from_set, NodeType.allows_mark_type / allows_marks / allowed_marks).

  The rank of a mark type is its id (position in the schema's mark table).
-/
import PM.Basic
namespace PM

def Schema.excludes (S : Schema) (a b : MarkTypeId) : Bool := (S.markType a).excluded.contains b

/-- The loop of `Mark.add_to_set` (documented / upstream behaviour: `copy` is tested for being
    *absent*, not for being empty). `i` is the index of the head of `rest` in `set`. -/
def addToSetAux (S : Schema) (m : Mark) (set : Marks) :
    (rest : Marks) → (i : Nat) → (copy : Option Marks) → (placed : Bool) → Marks
  | [], _, copy, placed =>
    let c := copy.getD set
    if placed then c else c ++ [m]
  | other :: rest, i, copy, placed =>
    if m = other then set
    else if S.excludes m.ty other.ty then
      addToSetAux S m set rest (i + 1) (some (copy.getD (set.take i))) placed
    else if S.excludes other.ty m.ty then set
    else
      if !placed && other.ty > m.ty then
        addToSetAux S m set rest (i + 1) (some (copy.getD (set.take i) ++ [m] ++ [other])) true
      else
        addToSetAux S m set rest (i + 1) (copy.map (· ++ [other])) placed

def Mark.addToSet (S : Schema) (m : Mark) (set : Marks) : Marks :=
  addToSetAux S m set set 0 none false

def Mark.removeFromSet (m : Mark) (set : Marks) : Marks := set.filter (· != m)
def Mark.isInSet (m : Mark) (set : Marks) : Bool := set.any (· == m)
def sameSet (a b : Marks) : Bool := a == b

/-- insertion into a rank-sorted list *after* all marks of rank ≤ the new one (stable) -/
def insertByRank (m : Mark) : Marks → Marks
  | [] => [m]
  | o :: rest => if o.ty > m.ty then m :: o :: rest else o :: insertByRank m rest

/-- `Mark.set_from` on a list: stable sort by rank -/
def setFrom (l : Marks) : Marks := l.foldl (fun acc m => insertByRank m acc) []

def markTypeRemoveFromSet (t : MarkTypeId) (set : Marks) : Marks := set.filter (·.ty != t)
def markTypeIsInSet (t : MarkTypeId) (set : Marks) : Option Mark := set.find? (·.ty == t)

def NodeType.allowsMarkType (nt : NodeType) (t : MarkTypeId) : Bool :=
  match nt.markSet with
  | none => true
  | some l => l.contains t

def NodeType.allowsMarks (nt : NodeType) (ms : Marks) : Bool := ms.all (fun m => nt.allowsMarkType m.ty)
def NodeType.allowedMarks (nt : NodeType) (ms : Marks) : Marks := ms.filter (fun m => nt.allowsMarkType m.ty)

/-! ### Canonical form of a mark set (what `Node.check` demands): re-adding every mark in order
    reproduces the set. -/
def canonicalMarks (S : Schema) (ms : Marks) : Bool :=
  ms.foldl (fun acc m => m.addToSet S acc) [] == ms

end PM
