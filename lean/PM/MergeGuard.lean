/-
  PM/MergeGuard.lean — the per-case guard under which a merged replace step applies whenever the pair it
  replaces does (C16, `merge_succeeds_replace_backward`).

  `Step.merge` has two branches.  In the first (the second step starts where the first one's content
  ends) nothing is needed (`C16.merge_succeeds_replace_forward`).  In the second (the second step ends
  where the first one starts: deleting backwards) the first step joined the ancestors of its `to` onto
  the ancestors of its `from`, and the second step joined those onto the ancestors of *its* `from`; the
  merged step joins the ancestors of the first step's `to` directly onto the ancestors of the second
  step's `from` and runs `check_join` on that pair of node types at every level above the (second) slice:
  exactly the levels `0 … depth(first.from) − 1` of the original document.  `compatible_content` is
  symmetric but not transitive, so this has to be asked for.  The guard is exact: under the other hypotheses
  of `C16.merge_succeeds_replace` the merged step applies if and only if it holds
  (`C16.merge_succeeds_replace_iff`).
  A specification predicate over the model's data (not a model of a library function); the harness ties it
  to the same condition computed with `ResolvedPos.node(d)` and `NodeType.compatible_content` of the real
  code (driver op `mergeCompat`).
-/
import PM.Basic
import PM.Content
import PM.Replace
import PM.Step
import PM.UndoGuard
namespace PM

/-- **guard of `merge_succeeds_replace_backward`**: for replace steps in the second `merge` branch, the
    ancestor of `s2.from` and the ancestor of `s1.to` in `doc` have join-compatible types at every depth
    `< depth(s1.from)`; `true` in the first branch and for every other pair of steps -/
def mergeCompat (S : Schema) (doc : Node) (s1 s2 : Step) : Bool :=
  match s1, s2 with
  | .replace f t sl _, .replace f' _ sl' _ =>
    if (f : Int) + sl.size = f' && sl.openEnd = 0 && sl'.openStart = 0 then true
    else ancCompat S (depthAt doc.kids f) doc.kids f' doc.kids t
  | _, _ => true

end PM
