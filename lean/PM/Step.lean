/-
  PM/Step.lean — model of the eight step kinds (transform/step.py, replace_step.py, mark_step.py,
  attr_step.py, doc_attr_step.py): apply, get_map, invert, map, merge.
-/
import PM.Basic
import PM.Marks
import PM.Fragment
import PM.Content
import PM.Replace
import PM.Resolve
import PM.Map
namespace PM

inductive Step where
  | replace (f t : Nat) (sl : Slice) (struct : Bool)
  | replaceAround (f t gf gt : Nat) (sl : Slice) (insert : Nat) (struct : Bool)
  | addMark (f t : Nat) (m : Mark)
  | removeMark (f t : Nat) (m : Mark)
  | addNodeMark (pos : Nat) (m : Mark)
  | removeNodeMark (pos : Nat) (m : Mark)
  | attr (pos : Nat) (name : String) (value : String)
  | docAttr (name : String) (value : String)
deriving Repr, Inhabited, DecidableEq

/-! ### content_between (the structure flag's guard) -/

/-- `content_between(doc, from, to)`; `none` = position out of range (ValueError) -/
def contentBetween (doc : Node) (from_ to : Nat) : Option Bool :=
  match doc.resolve from_ with
  | none => none
  | some r =>
    let dist := to - from_
    -- climb while the position is at the end of the node at `depth`
    let rec climb : Nat → Nat → Nat → Nat × Nat
      | 0, depth, dist => (depth, dist)
      | fuel + 1, depth, dist =>
        if dist > 0 && depth > 0 && r.indexAfter depth == (r.node depth).kids.length then
          climb fuel (depth - 1) (dist - 1)
        else (depth, dist)
    -- the range starts inside a text node: the rest of that text is content
    if dist > 0 && r.textOffset != 0 then some true else
    let (depth, dist) := climb (r.depth + 1) r.depth dist
    let rec descend : Nat → Option Node → Bool
      | 0, _ => false
      | dist + 1, next =>
        match next with
        | none => true
        | some n => if n.isLeaf then true else descend dist n.kids.head?
    if dist > 0 then some (descend dist ((r.node depth).kids[r.indexAfter depth]?)) else some false

/-! ### attribute computation -/

/-- `compute_attrs(attrs, value)`: declared attributes in order; a missing or null value takes the
    default; no default → ValueError -/
def computeAttrs (decls : List AttrDecl) (given : Attrs) : Res Attrs :=
  decls.foldr (fun d acc =>
    match acc with
    | .error e => .error e
    | .ok rest =>
      let g := (given.find? (·.1 == d.name)).map (·.2)
      match g with
      | some v => if v != "null" then .ok ((d.name, v) :: rest)
                  else if d.hasDefault then .ok ((d.name, d.default) :: rest) else .error .valueError
      | none => if d.hasDefault then .ok ((d.name, d.default) :: rest) else .error .valueError)
    (.ok [])

/-- `node.type.create(attrs, None, marks)` for the node-mark / attr steps: rebuilds the node's
    markup, empty content; text nodes cannot be created this way (ValueError) -/
def Schema.recreate (S : Schema) (n : Node) (attrs : Attrs) (marks : Marks) : Res Node :=
  match n with
  | .text .. => .error .valueError
  | .leaf t _ _ => (computeAttrs (S.nodeType t).attrs attrs).map (fun a => Node.leaf t a (setFrom marks))
  | .elem t _ _ _ => (computeAttrs (S.nodeType t).attrs attrs).map (fun a => Node.elem t a (setFrom marks) [])

/-! ### map_fragment for the mark steps -/

mutual
/-- `map_fragment(fragment, f, parent)` for AddMarkStep: mark inline atoms whose parent allows it -/
def addMarkKids (S : Schema) (mrk : Mark) : (parentTy : TypeId) → List Node → List Node
  | _, [] => []
  | p, n :: ns => addMarkNode S mrk p n :: addMarkKids S mrk p ns
def addMarkNode (S : Schema) (mrk : Mark) : (parentTy : TypeId) → Node → Node
  | p, .text s m =>
    if (S.nodeType p).allowsMarkType mrk.ty then .text s (mrk.addToSet S m) else .text s m
  | p, .leaf t a m =>
    if (S.nodeType t).isInline && (S.nodeType p).allowsMarkType mrk.ty then .leaf t a (mrk.addToSet S m)
    else .leaf t a m
  | p, .elem t a m kids =>
    let kids' := fromArray (addMarkKids S mrk t kids)
    if (S.nodeType t).isInline && (S.nodeType t).isAtom && (S.nodeType p).allowsMarkType mrk.ty
    then .elem t a (mrk.addToSet S m) kids' else .elem t a m kids'
end

mutual
def removeMarkKids (S : Schema) (mrk : Mark) : List Node → List Node
  | [] => []
  | n :: ns => removeMarkNode S mrk n :: removeMarkKids S mrk ns
def removeMarkNode (S : Schema) (mrk : Mark) : Node → Node
  | .text s m => .text s (mrk.removeFromSet m)
  | .leaf t a m => if (S.nodeType t).isInline then .leaf t a (mrk.removeFromSet m) else .leaf t a m
  | .elem t a m kids =>
    let kids' := fromArray (removeMarkKids S mrk kids)
    if (S.nodeType t).isInline then .elem t a (mrk.removeFromSet m) kids' else .elem t a m kids'
end

/-- type of the node at the shared depth of `from` and `to` (the `parent` AddMarkStep passes) -/
def sharedParentTy (S : Schema) (doc : Node) (f t : Nat) : Option TypeId :=
  match doc.resolve f with
  | none => none
  | some r => some (S.tyOf (r.node (r.sharedDepth t)))

/-! ### apply -/

def Schema.fromReplace (S : Schema) (doc : Node) (f t : Nat) (sl : Slice) : Res Node :=
  S.replace doc f t sl

def Schema.apply (S : Schema) (st : Step) (doc : Node) : Res Node :=
  match st with
  | .replace f t sl struct =>
    if struct then
      match contentBetween doc f t with
      | none => .error .valueError
      | some true => .error .failed
      | some false => S.fromReplace doc f t sl
    else S.fromReplace doc f t sl
  | .replaceAround f t gf gt sl insert struct =>
    let structOk : Res Unit :=
      if struct then
        match contentBetween doc f gf with
        | none => .error .valueError
        | some true => .error .failed
        | some false =>
          match contentBetween doc gt t with
          | none => .error .valueError
          | some true => .error .failed
          | some false => .ok ()
      else .ok ()
    match structOk with
    | .error e => .error e
    | .ok () =>
      match doc.slice gf gt with
      | .error e => .error e
      | .ok gap =>
        if gap.openStart ≠ 0 || gap.openEnd ≠ 0 then .error .failed
        else
          match sl.insertAt S insert gap.content with
          | .error e => .error e
          | .ok none => .error .failed
          | .ok (some inserted) => S.fromReplace doc f t inserted
  | .addMark f t mrk =>
    match doc.slice f t with
    | .error e => .error e
    | .ok old =>
      match sharedParentTy S doc f t with
      | none => .error .valueError
      | some p =>
        S.fromReplace doc f t ⟨fromArray (addMarkKids S mrk p old.content), old.openStart, old.openEnd⟩
  | .removeMark f t mrk =>
    match doc.slice f t with
    | .error e => .error e
    | .ok old =>
      S.fromReplace doc f t ⟨fromArray (removeMarkKids S mrk old.content), old.openStart, old.openEnd⟩
  | .addNodeMark pos mrk =>
    match doc.nodeAt pos with
    | .error e => .error e
    | .ok none => .error .failed
    | .ok (some n) =>
      match S.recreate n n.attrs (mrk.addToSet S n.marks) with
      | .error e => .error e
      | .ok u => S.fromReplace doc pos (pos + 1) ⟨[u], 0, if n.isLeaf then 0 else 1⟩
  | .removeNodeMark pos mrk =>
    match doc.nodeAt pos with
    | .error e => .error e
    | .ok none => .error .failed
    | .ok (some n) =>
      match S.recreate n n.attrs (mrk.removeFromSet n.marks) with
      | .error e => .error e
      | .ok u => S.fromReplace doc pos (pos + 1) ⟨[u], 0, if n.isLeaf then 0 else 1⟩
  | .attr pos name value =>
    match doc.nodeAt pos with
    | .error e => .error e
    | .ok none => .error .failed
    | .ok (some n) =>
      let attrs := (n.attrs.filter (·.1 != name)) ++ [(name, value)]
      match S.recreate n attrs n.marks with
      | .error e => .error e
      | .ok u => S.fromReplace doc pos (pos + 1) ⟨[u], 0, if n.isLeaf then 0 else 1⟩
  | .docAttr name value =>
    match doc with
    | .elem t a m kids =>
      let attrs := (a.filter (·.1 != name)) ++ [(name, value)]
      (computeAttrs (S.nodeType t).attrs attrs).map (fun a' => Node.elem t a' (setFrom m) kids)
    | _ => .error .internal

/-! ### get_map -/

def Step.getMap : Step → StepMap
  | .replace f t sl _ => ⟨[((f : Int), (t : Int) - f, sl.size)], false⟩
  | .replaceAround f t gf gt sl insert _ =>
    ⟨[((f : Int), (gf : Int) - f, (insert : Int)), ((gt : Int), (t : Int) - gt, sl.size - insert)], false⟩
  | _ => ⟨[], false⟩

/-! ### invert -/

def Schema.invert (S : Schema) (st : Step) (doc : Node) : Res Step :=
  match st with
  | .replace f t sl _ =>
    match doc.slice f t with
    | .ok old => .ok (.replace f (f + (sl.size.toNat)) old false)
    | .error e => .error e
  | .replaceAround f t gf gt sl insert struct =>
    let gap := gt - gf
    match doc.slice f t with
    | .error e => .error e
    | .ok old =>
      match old.removeBetween (gf - f) (gt - f) with
      | .error e => .error e
      | .ok rem =>
        .ok (.replaceAround f (f + sl.size.toNat + gap) (f + insert) (f + insert + gap) rem (gf - f) struct)
  | .addMark f t mrk => .ok (.removeMark f t mrk)
  | .removeMark f t mrk => .ok (.addMark f t mrk)
  | .addNodeMark pos mrk =>
    match doc.nodeAt pos with
    | .error e => .error e
    | .ok none => .ok (.removeNodeMark pos mrk)
    | .ok (some n) =>
      let newSet := mrk.addToSet S n.marks
      if newSet.length = n.marks.length then
        match n.marks.find? (fun x => !(x.isInSet newSet)) with
        | some x => .ok (.addNodeMark pos x)
        | none => .ok (.addNodeMark pos mrk)
      else .ok (.removeNodeMark pos mrk)
  | .removeNodeMark pos mrk =>
    match doc.nodeAt pos with
    | .error e => .error e
    | .ok none => .ok st
    | .ok (some n) => if mrk.isInSet n.marks then .ok (.addNodeMark pos mrk) else .ok st
  | .attr pos name _ =>
    match doc.nodeAt pos with
    | .error e => .error e
    | .ok none => .error .internal
    | .ok (some n) =>
      match n.attrs.find? (·.1 == name) with
      | some (_, v) => .ok (.attr pos name v)
      | none => .ok (.attr pos name "null")      -- `node.attrs.get(attr)` → None
  | .docAttr name _ =>
    match doc.attrs.find? (·.1 == name) with
    | some (_, v) => .ok (.docAttr name v)
    | none => .ok (.docAttr name "null")          -- `doc.attrs.get(attr)` → None

/-! ### map (rebasing over a single step map; `Mappable` = StepMap here) -/

def Step.map (st : Step) (m : StepMap) : Option Step :=
  match st with
  | .replace f t sl _ =>
    let from_ := m.mapResult f 1
    let to := m.mapResult t (-1)
    if from_.deleted && to.deleted then none
    else some (.replace from_.pos.toNat (max from_.pos to.pos).toNat sl false)
  | .replaceAround f t gf gt sl insert struct =>
    let from_ := m.mapResult f 1
    let to := m.mapResult t (-1)
    let gapFrom := m.map gf (-1)
    let gapTo := m.map gt 1
    if (from_.deleted && to.deleted) || gapFrom < from_.pos || gapTo > to.pos then none
    else some (.replaceAround from_.pos.toNat to.pos.toNat gapFrom.toNat gapTo.toNat sl insert struct)
  | .addMark f t mrk =>
    let from_ := m.mapResult f 1
    let to := m.mapResult t (-1)
    if (from_.deleted && to.deleted) || from_.pos > to.pos then none
    else some (.addMark from_.pos.toNat to.pos.toNat mrk)
  | .removeMark f t mrk =>
    let from_ := m.mapResult f 1
    let to := m.mapResult t (-1)
    if (from_.deleted && to.deleted) || from_.pos > to.pos then none
    else some (.removeMark from_.pos.toNat to.pos.toNat mrk)
  | .addNodeMark pos mrk =>
    let p := m.mapResult pos 1
    if p.deletedAfter then none else some (.addNodeMark p.pos.toNat mrk)
  | .removeNodeMark pos mrk =>
    let p := m.mapResult pos 1
    if p.deletedAfter then none else some (.removeNodeMark p.pos.toNat mrk)
  | .attr pos name value =>
    let p := m.mapResult pos 1
    if p.deletedAfter then none else some (.attr p.pos.toNat name value)
  | .docAttr name value => some (.docAttr name value)

/-! ### merge -/

def Step.merge (a b : Step) : Option Step :=
  match a, b with
  | .replace f t sl st, .replace f' t' sl' st' =>
    if st || st' then none
    else if (f : Int) + sl.size = f' && sl.openEnd = 0 && sl'.openStart = 0 then
      let slice := if sl.size + sl'.size = 0 then Slice.empty
                   else ⟨fappend sl.content sl'.content, sl.openStart, sl'.openEnd⟩
      some (.replace f (t + (t' - f')) slice false)
    else if t' = f && sl.openStart = 0 && sl'.openEnd = 0 then
      let slice := if sl.size + sl'.size = 0 then Slice.empty
                   else ⟨fappend sl'.content sl.content, sl'.openStart, sl.openEnd⟩
      some (.replace f' t slice false)
    else none
  | .addMark f t mrk, .addMark f' t' mrk' =>
    if mrk' = mrk && f ≤ t' && t ≥ f' then some (.addMark (min f f') (max t t') mrk) else none
  | .removeMark f t mrk, .removeMark f' t' mrk' =>
    if mrk' = mrk && f ≤ t' && t ≥ f' then some (.removeMark (min f f') (max t t') mrk) else none
  | _, _ => none

end PM
