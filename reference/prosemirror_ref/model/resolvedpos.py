from collections.abc import Callable
from typing import TYPE_CHECKING, Optional, Union, cast

from .mark import Mark

if TYPE_CHECKING:
    from .node import Node


class ResolvedPos:
    def __init__(
        self,
        pos: int,
        path: list[Union["Node", int]],
        parent_offset: int,
    ) -> None:
        self.pos = pos
        self.path = path
        self.depth = int(len(path) / 3 - 1)
        self.parent_offset = parent_offset

    def resolve_depth(self, val: int | None = None) -> int:
        if val is None:
            return self.depth
        return self.depth + val if val < 0 else val

    @property
    def parent(self) -> "Node":
        return self.node(self.depth)

    @property
    def doc(self) -> "Node":
        return self.node(0)

    def node(self, depth: int) -> "Node":
        return cast("Node", self.path[self.resolve_depth(depth) * 3])

    def index(self, depth: int | None = None) -> int:
        return cast(int, self.path[self.resolve_depth(depth) * 3 + 1])

    def index_after(self, depth: int) -> int:
        depth = self.resolve_depth(depth)
        return self.index(depth) + (
            0 if depth == self.depth and not self.text_offset else 1
        )

    def start(self, depth: int | None = None) -> int:
        depth = self.resolve_depth(depth)
        return 0 if depth == 0 else cast(int, self.path[depth * 3 - 1]) + 1

    def end(self, depth: int | None = None) -> int:
        depth = self.resolve_depth(depth)
        return self.start(depth) + self.node(depth).content.size

    def before(self, depth: int | None = None) -> int:
        depth = self.resolve_depth(depth)
        if not depth:
            msg = "There is no position before the top level node"
            raise ValueError(msg)
        return (
            self.pos if depth == self.depth + 1 else cast(int, self.path[depth * 3 - 1])
        )

    def after(self, depth: int | None = None) -> int:
        depth = self.resolve_depth(depth)
        if not depth:
            msg = "There is no position after the top level node"
            raise ValueError(msg)
        return (
            self.pos
            if depth == self.depth + 1
            else cast(int, self.path[depth * 3 - 1])
            + cast("Node", self.path[depth * 3]).node_size
        )

    @property
    def text_offset(self) -> int:
        return self.pos - cast(int, self.path[-1])

    @property
    def node_after(self) -> Optional["Node"]:
        parent = self.parent
        index = self.index(self.depth)
        if index == parent.child_count:
            return None
        d_off = self.pos - cast(int, self.path[-1])
        child = parent.child(index)
        return parent.child(index).cut(d_off) if d_off else child

    @property
    def node_before(self) -> Optional["Node"]:
        index = self.index(self.depth)
        d_off = self.pos - cast(int, self.path[-1])
        if d_off:
            return self.parent.child(index).cut(0, d_off)
        return None if index == 0 else self.parent.child(index - 1)

    def pos_at_index(self, index: int, depth: int | None = None) -> int:
        depth = self.resolve_depth(depth)
        node = cast("Node", self.path[depth * 3])
        pos = 0 if depth == 0 else cast(int, self.path[depth * 3 - 1]) + 1
        for i in range(index):
            pos += node.child(i).node_size
        return pos

    def marks(self) -> list["Mark"]:
        parent = self.parent
        index = self.index()
        if parent.content.size == 0:
            return Mark.none
        if self.text_offset:
            return parent.child(index).marks
        main = parent.maybe_child(index - 1)
        other = parent.maybe_child(index)
        if not main:
            main, other = other, main
        marks = cast("Node", main).marks
        i = 0
        while i < len(marks):
            if marks[i].type.spec.get("inclusive") is False and (
                not other or not marks[i].is_in_set(other.marks)
            ):
                marks = marks[i].remove_from_set(marks)
                i -= 1
            i += 1
        return marks

    def marks_across(self, end: "ResolvedPos") -> list["Mark"] | None:
        after = self.parent.maybe_child(self.index())
        if not after or not after.is_inline:
            return None
        marks = after.marks
        next = end.parent.maybe_child(end.index())
        i = 0
        while i < len(marks):
            if marks[i].type.spec.get("inclusive") is False and (
                not next or not marks[i].is_in_set(next.marks)
            ):
                marks = marks[i].remove_from_set(marks)
                i -= 1
            i += 1
        return marks

    def shared_depth(self, pos: int) -> int:
        depth = self.depth
        while depth > 0:
            if self.start(depth) <= pos and self.end(depth) >= pos:
                return depth
            depth -= 1
        return 0

    def block_range(
        self,
        other: Optional["ResolvedPos"] = None,
        pred: Callable[["Node"], bool] | None = None,
    ) -> Optional["NodeRange"]:
        if other is None:
            other = self
        if other.pos < self.pos:
            return other.block_range(self)
        d = self.depth - (
            self.parent.inline_content or (1 if self.pos == other.pos else 0)
        )
        while d >= 0:
            if other.pos <= self.end(d) and (not pred or pred(self.node(d))):
                return NodeRange(self, other, d)
            d -= 1
        return None

    def same_parent(self, other: "ResolvedPos") -> bool:
        return self.pos - self.parent_offset == other.pos - other.parent_offset

    def max(self, other: "ResolvedPos") -> "ResolvedPos":
        return other if other.pos > self.pos else self

    def min(self, other: "ResolvedPos") -> "ResolvedPos":
        return other if other.pos < self.pos else self

    def __str__(self) -> str:
        path = "/".join([
            f"{self.node(i).type.name}_{self.index(i - 1)}"
            for i in range(1, self.depth + 1)
        ])
        return f"{path}:{self.parent_offset}"

    @classmethod
    def resolve(cls, doc: "Node", pos: int) -> "ResolvedPos":
        if not (pos >= 0 and pos <= doc.content.size):
            msg = f"Position {pos} out of range"
            raise ValueError(msg)
        path: list[Node | int] = []
        start = 0
        parent_offset = pos
        node = doc
        while True:
            index_info = node.content.find_index(parent_offset)
            index, offset = index_info["index"], index_info["offset"]
            rem = parent_offset - offset
            path.extend([node, index, start + offset])
            if not rem:
                break
            node = node.child(index)
            if node.is_text:
                break
            parent_offset = rem - 1
            start += offset + 1
        return cls(pos, path, parent_offset)

    @classmethod
    def resolve_cached(cls, doc: "Node", pos: int) -> "ResolvedPos":
        # no cache for now
        return cls.resolve(doc, pos)


class NodeRange:
    def __init__(self, from_: ResolvedPos, to: ResolvedPos, depth: int) -> None:
        self.from_ = from_
        self.to = to
        self.depth = depth

    @property
    def start(self) -> int:
        return self.from_.before(self.depth + 1)

    @property
    def end(self) -> int:
        return self.to.after(self.depth + 1)

    @property
    def parent(self) -> "Node":
        return self.from_.node(self.depth)

    @property
    def start_index(self) -> int:
        return self.from_.index(self.depth)

    @property
    def end_index(self) -> int:
        return self.to.index_after(self.depth)
