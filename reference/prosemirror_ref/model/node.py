import copy
from collections.abc import Callable
from typing import TYPE_CHECKING, Any, Optional, TypedDict, TypeGuard, Union, cast

from prosemirror_ref.utils import Attrs, JSONDict, text_length

from .comparedeep import compare_deep
from .fragment import Fragment
from .mark import Mark
from .replace import Slice, replace
from .resolvedpos import ResolvedPos

if TYPE_CHECKING:
    from .content import ContentMatch
    from .schema import MarkType, NodeType, Schema


empty_attrs: JSONDict = {}


class ChildInfo(TypedDict):
    node: Optional["Node"]
    index: int
    offset: int


class Node:
    def __init__(
        self,
        type: "NodeType",
        attrs: "Attrs",
        content: Fragment | None,
        marks: list[Mark],
    ) -> None:
        self.type = type
        self.attrs = attrs
        self.content = content or Fragment.empty
        self.marks = marks or Mark.none

    @property
    def node_size(self) -> int:
        return 1 if self.is_leaf else 2 + self.content.size

    @property
    def child_count(self) -> int:
        return self.content.child_count

    def child(self, index: int) -> "Node":
        return self.content.child(index)

    def maybe_child(self, index: int) -> Optional["Node"]:
        return self.content.maybe_child(index)

    def for_each(self, f: Callable[["Node", int, int], None]) -> None:
        self.content.for_each(f)

    def nodes_between(
        self,
        from_: int,
        to: int,
        f: Callable[["Node", int, Optional["Node"], int], bool | None],
        start_pos: int = 0,
    ) -> None:
        self.content.nodes_between(from_, to, f, start_pos, self)

    def descendants(
        self,
        f: Callable[["Node", int, Optional["Node"], int], bool | None],
    ) -> None:
        self.nodes_between(0, self.content.size, f)

    @property
    def text_content(self) -> str:
        if self.is_leaf and self.type.spec.get("leafText") is not None:
            return self.type.spec["leafText"](self)
        return self.text_between(0, self.content.size, "")

    def text_between(
        self,
        from_: int,
        to: int,
        block_separator: str = "",
        leaf_text: Callable[["Node"], str] | str = "",
    ) -> str:
        return self.content.text_between(from_, to, block_separator, leaf_text)

    @property
    def first_child(self) -> Optional["Node"]:
        return self.content.first_child

    @property
    def last_child(self) -> Optional["Node"]:
        return self.content.last_child

    def eq(self, other: "Node") -> bool:
        return self == other or (
            self.same_markup(other) and self.content.eq(other.content)
        )

    def same_markup(self, other: "Node") -> bool:
        return self.has_markup(other.type, other.attrs, other.marks)

    def has_markup(
        self,
        type: "NodeType",
        attrs: Optional["Attrs"] = None,
        marks: list[Mark] | None = None,
    ) -> bool:
        return (
            self.type.name == type.name
            and (compare_deep(self.attrs, attrs or type.default_attrs or empty_attrs))
            and (Mark.same_set(self.marks, marks or Mark.none))
        )

    def copy(self, content: Fragment | None = None) -> "Node":
        if content == self.content:
            return self
        return self.__class__(self.type, self.attrs, content, self.marks)

    def mark(self, marks: list[Mark]) -> "Node":
        if marks == self.marks:
            return self
        return self.__class__(self.type, self.attrs, self.content, marks)

    def cut(self, from_: int, to: int | None = None) -> "Node":
        if from_ == 0 and to == self.content.size:
            return self
        return self.copy(self.content.cut(from_, to))

    def slice(
        self,
        from_: int,
        to: int | None = None,
        include_parents: bool = False,
    ) -> Slice:
        if to is None:
            to = self.content.size
        if from_ == to:
            return Slice.empty
        from__ = self.resolve(from_)
        to_ = self.resolve(to)
        depth = 0 if include_parents else from__.shared_depth(to)
        start = from__.start(depth)
        node = from__.node(depth)
        content = node.content.cut(from__.pos - start, to_.pos - start)
        return Slice(content, from__.depth - depth, to_.depth - depth)

    def replace(self, from_: int, to: int, slice: Slice) -> "Node":
        return replace(self.resolve(from_), self.resolve(to), slice)

    def node_at(self, pos: int) -> Optional["Node"]:
        node = self
        while True:
            index_info = node.content.find_index(pos)
            index, offset = index_info["index"], index_info["offset"]
            next_node = node.maybe_child(index)
            if not next_node:
                return None
            node = next_node
            if offset == pos or node.is_text:
                return node
            pos -= offset + 1

    def child_after(self, pos: int) -> ChildInfo:
        index_info = self.content.find_index(pos)
        index, offset = index_info["index"], index_info["offset"]
        return {
            "node": self.content.maybe_child(index),
            "index": index,
            "offset": offset,
        }

    def child_before(self, pos: int) -> ChildInfo:
        if pos == 0:
            return {"node": None, "index": 0, "offset": 0}
        index_info = self.content.find_index(pos)
        index, offset = index_info["index"], index_info["offset"]
        if offset < pos:
            return {"node": self.content.child(index), "index": index, "offset": offset}
        node = self.content.child(index - 1)
        return {"node": node, "index": index - 1, "offset": offset - node.node_size}

    def resolve(self, pos: int) -> ResolvedPos:
        return ResolvedPos.resolve_cached(self, pos)

    def resolve_no_cache(self, pos: int) -> ResolvedPos:
        return ResolvedPos.resolve(self, pos)

    def range_has_mark(
        self,
        from_: int,
        to: int,
        type: Union["Mark", "MarkType"],
    ) -> bool:
        found = False
        if to > from_:

            def iteratee(
                node: "Node",
                pos: int,
                parent: Optional["Node"],
                index: int,
            ) -> bool:
                nonlocal found
                if type.is_in_set(node.marks):
                    found = True
                return not found

            self.nodes_between(from_, to, iteratee)
        return found

    @property
    def is_block(self) -> bool:
        return self.type.is_block

    @property
    def is_textblock(self) -> bool:
        return self.type.is_textblock

    @property
    def inline_content(self) -> bool:
        return self.type.inline_content

    @property
    def is_inline(self) -> bool:
        return self.type.is_inline

    @property
    def is_text(self) -> bool:
        return self.type.is_text

    @property
    def is_leaf(self) -> bool:
        return self.type.is_leaf

    @property
    def is_atom(self) -> bool:
        return self.type.is_atom

    def __str__(self) -> str:
        to_debug_string = self.type.spec.get("toDebugString", None)
        if to_debug_string:
            return to_debug_string(self)
        name = self.type.name
        if self.content.size:
            name += f"({self.content.to_string_inner()})"
        return wrap_marks(self.marks, name)

    def __repr__(self) -> str:
        return f"<{self.__class__.__name__} {self.__str__()}>"

    def content_match_at(self, index: int) -> "ContentMatch":
        match = self.type.content_match.match_fragment(self.content, 0, index)
        if not match:
            msg = "Called contentMatchAt on a node with invalid content"
            raise ValueError(msg)
        return match

    def can_replace(
        self,
        from_: int,
        to: int,
        replacement: Fragment = Fragment.empty,
        start: int = 0,
        end: int | None = None,
    ) -> bool:
        if end is None:
            end = replacement.child_count
        one = self.content_match_at(from_).match_fragment(replacement, start, end)
        two: ContentMatch | None = None
        if one:
            two = one.match_fragment(self.content, to)
        if not two or not two.valid_end:
            return False
        for i in range(start, end):
            if not self.type.allows_marks(replacement.child(i).marks):
                return False
        return True

    def can_replace_with(
        self,
        from_: int,
        to: int,
        type: "NodeType",
        marks: list[Mark] | None = None,
    ) -> bool:
        if marks and not self.type.allows_marks(marks):
            return False
        start = self.content_match_at(from_).match_type(type)
        end: ContentMatch | None = None
        if start:
            end = start.match_fragment(self.content, to)
        return end.valid_end if end else False

    def can_append(self, other: "Node") -> bool:
        if other.content.size:
            return self.can_replace(self.child_count, self.child_count, other.content)
        else:
            return self.type.compatible_content(other.type)

    def check(self) -> None:
        if not self.type.valid_content(self.content):
            msg = f"Invalid content for node {self.type.name}: {str(self.content)[:50]}"
            raise ValueError(msg)
        copy = Mark.none
        for mark in self.marks:
            copy = mark.add_to_set(copy)
        if not Mark.same_set(copy, self.marks):
            msg = (
                f"Invalid collection of marks for node {self.type.name}:"
                f" {[m.type.name for m in self.marks]!r}"
            )
            raise ValueError(msg)

        def iteratee(node: "Node", offset: int, index: int) -> None:
            node.check()

        return self.content.for_each(iteratee)

    def to_json(self) -> JSONDict:
        obj: JSONDict = {"type": self.type.name}
        if self.attrs:
            obj = {
                **obj,
                "attrs": copy.deepcopy(self.attrs),
            }
        if getattr(self.content, "size", None):
            obj = {
                **obj,
                "content": self.content.to_json(),
            }
        if len(self.marks):
            obj = {
                **obj,
                "marks": [n.to_json() for n in self.marks],
            }
        return obj

    @classmethod
    def from_json(cls, schema: "Schema[Any, Any]", json_data: JSONDict | str) -> "Node":
        if isinstance(json_data, str):
            import json

            json_data = cast(JSONDict, json.loads(json_data))

        if not json_data:
            msg = "Invalid input for Node.from_json"
            raise ValueError(msg)
        marks = None
        if json_data.get("marks"):
            if not isinstance(json_data["marks"], list):
                msg = "Invalid mark data for Node.fromJSON"
                raise ValueError(msg)
            marks = [schema.mark_from_json(item) for item in json_data["marks"]]
        if json_data["type"] == "text":
            return schema.text(str(json_data["text"]), marks)
        content = Fragment.from_json(schema, json_data.get("content"))
        return schema.node_type(str(json_data["type"])).create(
            cast("Attrs", json_data.get("attrs")),
            content,
            marks,
        )


class TextNode(Node):
    def __init__(
        self,
        type: "NodeType",
        attrs: "Attrs",
        content: str,
        marks: list[Mark],
    ) -> None:
        super().__init__(type, attrs, None, marks)
        if not content:
            msg = "Empty text nodes are not allowed"
            raise ValueError(msg)
        self.text = content

    def __str__(self) -> str:
        import json

        to_debug_string = self.type.spec.get("toDebugString", None)
        if to_debug_string:
            return to_debug_string(self)
        return wrap_marks(self.marks, json.dumps(self.text))

    @property
    def text_content(self) -> str:
        return self.text

    def text_between(
        self,
        from_: int,
        to: int,
        block_separator: str = "",
        leaf_text: Callable[["Node"], str] | str = "",
    ) -> str:
        # offsets count UTF-16 code units, like every other position
        return self.text.encode("utf-16-le")[2 * max(from_, 0) : 2 * max(to, 0)].decode(
            "utf-16-le",
        )

    @property
    def node_size(self) -> int:
        return text_length(self.text)

    def mark(self, marks: list[Mark]) -> "TextNode":
        return (
            self
            if marks == self.marks
            else TextNode(self.type, self.attrs, self.text, marks)
        )

    def with_text(self, text: str) -> "TextNode":
        if text == self.text:
            return self
        return TextNode(self.type, self.attrs, text, self.marks)

    def cut(self, from_: int = 0, to: int | None = None) -> "TextNode":
        if to is None:
            to = text_length(self.text)
        if from_ == 0 and to == text_length(self.text):
            return self
        substring = self.text.encode("utf-16-le")[2 * from_ : 2 * to].decode(
            "utf-16-le",
        )
        return self.with_text(substring)

    def eq(self, other: Node) -> bool:
        return self.same_markup(other) and self.text == getattr(other, "text", None)

    def to_json(
        self,
    ) -> JSONDict:
        return {**super().to_json(), "text": self.text}


def wrap_marks(marks: list[Mark], str: str) -> str:
    i = len(marks) - 1
    while i >= 0:
        str = marks[i].type.name + "(" + str + ")"
        i -= 1
    return str


def is_text(node: Node) -> TypeGuard[TextNode]:
    """
    Helper function to check if a node is a text node, but with
    type narrowing. (TypeGuard cannot narrow the type of `self`; see
    https://mypy.readthedocs.io/en/stable/type_narrowing.html#typeguards-as-methods)
    """
    return node.is_text
