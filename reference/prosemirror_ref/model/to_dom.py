import html
from collections.abc import Callable, Mapping, Sequence
from typing import (
    Any,
    Union,
    cast,
)

from .fragment import Fragment
from .mark import Mark
from .node import Node
from .schema import MarkType, NodeType, Schema

HTMLNode = Union["Element", "str"]


class DocumentFragment:
    def __init__(self, children: list[HTMLNode]) -> None:
        self.children = children

    def __str__(self) -> str:
        return "".join([str(c) for c in self.children])


SELF_CLOSING_ELEMENTS = frozenset({
    "area",
    "base",
    "br",
    "col",
    "embed",
    "hr",
    "img",
    "input",
    "keygen",
    "link",
    "meta",
    "param",
    "source",
    "track",
    "wbr",
})


class Element(DocumentFragment):
    def __init__(
        self,
        name: str,
        attrs: dict[str, str],
        children: list[HTMLNode],
    ) -> None:
        self.name = name
        self.attrs = attrs
        super().__init__(children)

    def __str__(self) -> str:
        attrs_str = " ".join([f'{k}="{html.escape(str(v))}"' for k, v in self.attrs.items()])
        open_tag_str = " ".join([s for s in [self.name, attrs_str] if s])
        if self.name in SELF_CLOSING_ELEMENTS:
            assert not self.children, "self-closing elements should not have children"
            return f"<{open_tag_str}>"
        children_str = "".join([str(c) for c in self.children])
        return f"<{open_tag_str}>{children_str}</{self.name}>"


HTMLOutputSpec = str | Sequence[Any] | Element


class DOMSerializer:
    def __init__(
        self,
        nodes: dict[str, Callable[[Node], HTMLOutputSpec]],
        marks: dict[str, Callable[[Mark, bool], HTMLOutputSpec]],
    ) -> None:
        self.nodes = nodes
        self.marks = marks

    def serialize_fragment(
        self,
        fragment: Fragment,
        target: Element | DocumentFragment | None = None,
    ) -> DocumentFragment:
        tgt: DocumentFragment = target or DocumentFragment(children=[])

        top = tgt
        active: list[tuple[Mark, DocumentFragment]] | None = None

        def each(node: Node, offset: int, index: int) -> None:
            nonlocal top, active

            if active or node.marks:
                if not active:
                    active = []
                keep = 0
                rendered = 0
                while keep < len(active) and rendered < len(node.marks):
                    next = node.marks[rendered]
                    if not self.marks.get(next.type.name):
                        rendered += 1
                        continue
                    if (
                        not next.eq(active[keep][0])
                        or next.type.spec.get("spanning") is False
                    ):
                        break
                    keep += 1
                    rendered += 1
                while keep < len(active):
                    top = active.pop()[1]
                while rendered < len(node.marks):
                    add = node.marks[rendered]
                    rendered += 1
                    mark_dom = self.serialize_mark(add, node.is_inline)
                    if mark_dom:
                        active.append((add, top))
                        top.children.append(mark_dom[0])
                        top = cast(DocumentFragment, mark_dom[1] or mark_dom[0])
            top.children.append(self.serialize_node_inner(node))

        fragment.for_each(each)
        return tgt

    def serialize_node_inner(self, node: Node) -> HTMLNode:
        dom, content_dom = type(self).render_spec(self.nodes[node.type.name](node))
        if content_dom:
            if node.is_leaf:
                msg = "Content hole not allowed in a leaf node spec"
                raise Exception(msg)
            self.serialize_fragment(node.content, content_dom)
        return dom

    def serialize_node(self, node: Node) -> HTMLNode:
        dom = self.serialize_node_inner(node)
        for mark in reversed(node.marks):
            wrap = self.serialize_mark(mark, node.is_inline)
            if wrap:
                inner, content_dom = wrap
                cast(DocumentFragment, content_dom or inner).children.append(dom)
                dom = inner
        return dom

    def serialize_mark(
        self,
        mark: Mark,
        inline: bool,
    ) -> tuple[HTMLNode, Element | None] | None:
        to_dom = self.marks.get(mark.type.name)
        if to_dom:
            return type(self).render_spec(to_dom(mark, inline))
        return None

    @classmethod
    def render_spec(cls, structure: HTMLOutputSpec) -> tuple[HTMLNode, Element | None]:
        if isinstance(structure, str):
            return html.escape(structure), None
        if isinstance(structure, Element):
            return structure, None
        tag_name = structure[0]
        if " " in tag_name[1:]:
            msg = "XML namespaces are not supported"
            raise NotImplementedError(msg)
        content_dom: Element | None = None
        dom = Element(name=tag_name, attrs={}, children=[])
        attrs = structure[1] if len(structure) > 1 else None
        start = 1
        if isinstance(attrs, dict):
            start = 2
            for name, value in attrs.items():
                if value is None:
                    continue
                if " " in name[1:]:
                    msg = "XML namespaces are not supported"
                    raise NotImplementedError(msg)
                dom.attrs[name] = value
        for i in range(start, len(structure)):
            child = structure[i]
            if child == 0:
                if i < len(structure) - 1 or i > start:
                    msg = "Content hole must be the only child of its parent node"
                    raise Exception(msg)
                return dom, dom
            inner, inner_content = cls.render_spec(child)
            dom.children.append(inner)
            if inner_content:
                if content_dom:
                    msg = "Multiple content holes"
                    raise Exception(msg)
                content_dom = inner_content
        return dom, content_dom

    @classmethod
    def from_schema(cls, schema: Schema[Any, Any]) -> "DOMSerializer":
        return cls(cls.nodes_from_schema(schema), cls.marks_from_schema(schema))

    @classmethod
    def nodes_from_schema(
        cls,
        schema: Schema[str, Any],
    ) -> dict[str, Callable[["Node"], HTMLOutputSpec]]:
        result = gather_to_dom(schema.nodes)
        if "text" not in result:
            result["text"] = lambda node: node.text
        return result

    @classmethod
    def marks_from_schema(
        cls,
        schema: Schema[Any, Any],
    ) -> dict[str, Callable[["Mark", bool], HTMLOutputSpec]]:
        return gather_to_dom(schema.marks)


def gather_to_dom(
    obj: Mapping[str, NodeType | MarkType],
) -> dict[str, Callable[..., Any]]:
    result = {}
    for name in obj:
        to_dom = obj[name].spec.get("toDOM")
        if to_dom:
            result[name] = to_dom
    return result
