from collections.abc import Callable
from typing import (
    Any,
    Generic,
    Literal,
    Optional,
    TypeAlias,
    TypeVar,
    cast,
)

from typing_extensions import NotRequired, TypedDict

from prosemirror_ref.model.content import ContentMatch
from prosemirror_ref.model.fragment import Fragment
from prosemirror_ref.model.mark import Mark
from prosemirror_ref.model.node import Node, TextNode
from prosemirror_ref.utils import JSON, Attrs, JSONDict


def default_attrs(attrs: "Attributes") -> Attrs | None:
    defaults = {}
    for attr_name, attr in attrs.items():
        if not attr.has_default:
            return None
        defaults[attr_name] = attr.default
    return defaults


def compute_attrs(attrs: "Attributes", value: Attrs | None) -> Attrs:
    built = {}
    for name in attrs:
        given = None
        if value:
            given = value.get(name)
        if given is None:
            attr = attrs[name]
            if attr.has_default:
                given = attr.default
            else:
                raise ValueError("No value supplied for attribute " + name)
        built[name] = given
    return built


def init_attrs(attrs: Optional["AttributeSpecs"]) -> "Attributes":
    result = {}
    if attrs:
        for name in attrs:
            result[name] = Attribute(attrs[name])
    return result


class NodeType:
    """
    Node types are objects allocated once per `Schema` and used to
    [tag](#model.Node.type) `Node` instances. They contain information
    about the node type, such as its name and what kind of node it
    represents.
    """

    name: str

    schema: "Schema[Any, Any]"

    spec: "NodeSpec"

    inline_content: bool

    mark_set: list["MarkType"] | None

    def __init__(self, name: str, schema: "Schema[Any, Any]", spec: "NodeSpec") -> None:
        self.name = name
        self.schema = schema
        self.spec = spec
        self.groups = spec["group"].split(" ") if "group" in spec else []
        self.attrs = init_attrs(spec.get("attrs"))
        self.default_attrs = default_attrs(self.attrs)
        self._content_match: ContentMatch | None = None
        self.mark_set = None
        self.inline_content = False
        self.is_block = not (spec.get("inline") or name == "text")
        self.is_text = name == "text"

    @property
    def content_match(self) -> ContentMatch:
        assert self._content_match is not None
        return self._content_match

    @content_match.setter
    def content_match(self, value: ContentMatch) -> None:
        self._content_match = value

    @property
    def is_inline(self) -> bool:
        return not self.is_block

    @property
    def is_textblock(self) -> bool:
        return self.is_block and self.inline_content

    @property
    def is_leaf(self) -> bool:
        return self.content_match == ContentMatch.empty

    @property
    def is_atom(self) -> bool:
        return self.is_leaf or bool(self.spec.get("atom"))

    @property
    def whitespace(self) -> Literal["pre", "normal"]:
        return self.spec.get("whitespace") or (
            "pre" if self.spec.get("code") else "normal"
        )

    def has_required_attrs(self) -> bool:
        return any(self.attrs[n].is_required for n in self.attrs)

    def compatible_content(self, other: "NodeType") -> bool:
        return self == other or (self.content_match.compatible(other.content_match))

    def compute_attrs(self, attrs: Attrs | None) -> Attrs:
        if attrs is None and self.default_attrs is not None:
            return self.default_attrs
        return compute_attrs(self.attrs, attrs)

    def create(
        self,
        attrs: Attrs | None = None,
        content: Fragment | Node | list[Node] | None = None,
        marks: list[Mark] | None = None,
    ) -> Node:
        if self.is_text:
            msg = "NodeType.create cannot construct text nodes"
            raise ValueError(msg)
        return Node(
            self,
            self.compute_attrs(attrs),
            Fragment.from_(content),
            Mark.set_from(marks),
        )

    def create_checked(
        self,
        attrs: Attrs | None = None,
        content: Fragment | Node | list[Node] | None = None,
        marks: list[Mark] | None = None,
    ) -> Node:
        content = Fragment.from_(content)
        if not self.valid_content(content):
            raise ValueError("Invalid content for node " + self.name)
        return Node(self, self.compute_attrs(attrs), content, Mark.set_from(marks))

    def create_and_fill(
        self,
        attrs: Attrs | None = None,
        content: Fragment | Node | list[Node] | None = None,
        marks: list[Mark] | None = None,
    ) -> Node | None:
        attrs = self.compute_attrs(attrs)
        frag = Fragment.from_(content)
        for i in range(frag.child_count):
            if not self.allows_marks(frag.child(i).marks):
                # the given content can never be valid here: nothing can be built around it
                return None
        if frag.size:
            before = self.content_match.fill_before(frag)
            if not before:
                return None
            frag = before.append(frag)
        matched = self.content_match.match_fragment(frag)
        if not matched:
            return None
        after = matched.fill_before(Fragment.empty, True)
        if not after:
            return None
        return Node(self, attrs, frag.append(after), Mark.set_from(marks))

    def valid_content(self, content: Fragment) -> bool:
        result = self.content_match.match_fragment(content)
        if not result or not result.valid_end:
            return False
        for i in range(content.child_count):
            if not self.allows_marks(content.child(i).marks):
                return False
        return True

    def allows_mark_type(self, mark_type: "MarkType") -> bool:
        return self.mark_set is None or mark_type in self.mark_set

    def allows_marks(self, marks: list[Mark]) -> bool:
        if self.mark_set is None:
            return True
        return all(self.allows_mark_type(mark.type) for mark in marks)

    def allowed_marks(self, marks: list[Mark]) -> list[Mark]:
        if self.mark_set is None:
            return marks
        copy: list[Mark] | None = None
        for i, mark in enumerate(marks):
            if not self.allows_mark_type(mark.type):
                if copy is None:
                    copy = marks[0:i]
            elif copy is not None:
                copy.append(mark)
        if copy is None:
            return marks
        elif len(copy):
            return copy
        else:
            return Mark.none

    @classmethod
    def compile(
        cls,
        nodes: dict["Nodes", "NodeSpec"],
        schema: "Schema[Nodes, Marks]",
    ) -> dict["Nodes", "NodeType"]:
        result: dict[Nodes, NodeType] = {}

        for name, spec in nodes.items():
            result[name] = NodeType(name, schema, spec)

        top_node = cast(Nodes, schema.spec.get("topNode") or "doc")
        if not result.get(top_node):
            msg = f"Schema is missing its top node type {top_node}"
            raise ValueError(msg)
        if not result.get(cast(Nodes, "text")):
            msg = "every schema needs a 'text' type"
            raise ValueError(msg)
        if result[cast(Nodes, "text")].attrs:
            msg = "the text node type should not have attributes"
            raise ValueError(msg)
        return result

    def __str__(self) -> str:
        return f"<NodeType {self.name}>"

    def __repr__(self) -> str:
        return self.__str__()


Attributes: TypeAlias = dict[str, "Attribute"]


class Attribute:
    def __init__(self, options: "AttributeSpec") -> None:
        self.has_default = "default" in options
        self.default = options["default"] if self.has_default else None

    @property
    def is_required(self) -> bool:
        return not self.has_default


class MarkType:
    excluded: list["MarkType"]
    instance: Mark | None

    def __init__(
        self,
        name: str,
        rank: int,
        schema: "Schema[Any, Any]",
        spec: "MarkSpec",
    ) -> None:
        self.name = name
        self.schema = schema
        self.spec = spec
        self.attrs = init_attrs(spec.get("attrs"))
        self.rank = rank
        self.excluded = None  # type: ignore[assignment]
        defaults = default_attrs(self.attrs)
        self.instance = None
        if defaults:
            self.instance = Mark(self, defaults)

    def create(
        self,
        attrs: Attrs | None = None,
    ) -> Mark:
        if not attrs and self.instance:
            return self.instance
        return Mark(self, compute_attrs(self.attrs, attrs))

    @classmethod
    def compile(
        cls,
        marks: dict["Marks", "MarkSpec"],
        schema: "Schema[Nodes, Marks]",
    ) -> dict["Marks", "MarkType"]:
        result = {}
        for rank, (name, spec) in enumerate(marks.items()):
            result[name] = MarkType(name, rank, schema, spec)
        return result

    def remove_from_set(self, set_: list["Mark"]) -> list["Mark"]:
        return [item for item in set_ if item.type != self]

    def is_in_set(self, set: list[Mark]) -> Mark | None:
        return next((item for item in set if item.type == self), None)

    def excludes(self, other: "MarkType") -> bool:
        return any(other.name == e.name for e in self.excluded)


Nodes = TypeVar("Nodes", bound=str, covariant=True)
Marks = TypeVar("Marks", bound=str, covariant=True)


class SchemaSpec(TypedDict, Generic[Nodes, Marks]):
    """
    An object describing a schema, as passed to the [`Schema`](#model.Schema)
    constructor.
    """

    # The node types in this schema. Maps names to
    # [`NodeSpec`](#model.NodeSpec) objects that describe the node type
    # associated with that name. Their order is significant—it
    # determines which [parse rules](#model.NodeSpec.parseDOM) take
    # precedence by default, and which nodes come first in a given
    # [group](#model.NodeSpec.group).
    nodes: dict[Nodes, "NodeSpec"]

    # The mark types that exist in this schema. The order in which they
    # are provided determines the order in which [mark
    # sets](#model.Mark.addToSet) are sorted and in which [parse
    # rules](#model.MarkSpec.parseDOM) are tried.
    marks: NotRequired[dict[Marks, "MarkSpec"]]

    # The name of the default top-level node for the schema. Defaults
    # to `"doc"`.
    topNode: NotRequired[str]


class NodeSpec(TypedDict, total=False):
    """
    A description of a node type, used when defining a schema.
    """

    content: str
    marks: str
    group: str
    inline: bool
    atom: bool
    attrs: "AttributeSpecs"
    selectable: bool
    draggable: bool
    code: bool
    whitespace: Literal["pre", "normal"]
    definingAsContext: bool
    definingForContent: bool
    defining: bool
    isolating: bool
    toDOM: Callable[[Node], Any]  # FIXME: add types
    parseDOM: list[dict[str, Any]]  # FIXME: add types
    toDebugString: Callable[[Node], str]
    leafText: Callable[[Node], str]


AttributeSpecs: TypeAlias = dict[str, "AttributeSpec"]


class MarkSpec(TypedDict, total=False):
    attrs: AttributeSpecs
    inclusive: bool
    excludes: str
    group: str
    spanning: bool
    toDOM: Callable[[Mark, bool], Any]  # FIXME: add types
    parseDOM: list[dict[str, Any]]  # FIXME: add types


class AttributeSpec(TypedDict, total=False):
    default: JSON


class Schema(Generic[Nodes, Marks]):
    spec: SchemaSpec[Nodes, Marks]

    nodes: dict[Nodes, "NodeType"]

    marks: dict[Marks, "MarkType"]

    def __init__(self, spec: SchemaSpec[Nodes, Marks]) -> None:
        self.spec = spec
        self.nodes = NodeType.compile(self.spec["nodes"], self)
        self.marks = MarkType.compile(self.spec.get("marks", {}), self)
        content_expr_cache = {}
        for prop in self.nodes:
            if prop in self.marks:
                msg = f"{prop} can not be both a node and a mark"
                raise ValueError(msg)
            type = self.nodes[prop]
            content_expr = type.spec.get("content", "")
            mark_expr = type.spec.get("marks")
            if content_expr not in content_expr_cache:
                content_expr_cache[content_expr] = ContentMatch.parse(
                    content_expr,
                    cast(dict[str, "NodeType"], self.nodes),
                )

            type.content_match = content_expr_cache[content_expr]
            type.inline_content = type.content_match.inline_content
            if mark_expr == "_":
                type.mark_set = None
            elif mark_expr:
                type.mark_set = gather_marks(self, mark_expr.split(" "))
            elif mark_expr == "" or not type.inline_content:
                type.mark_set = []
            else:
                type.mark_set = None
        for mark in self.marks.values():
            excl = mark.spec.get("excludes")
            mark.excluded = (
                [mark]
                if excl is None
                else ([] if excl == "" else (gather_marks(self, excl.split(" "))))
            )

        self.top_node_type = self.nodes[cast(Nodes, self.spec.get("topNode") or "doc")]
        self.cached: dict[str, Any] = {}
        self.cached["wrappings"] = {}

    def node(
        self,
        type: str | NodeType,
        attrs: Attrs | None = None,
        content: Fragment | Node | list[Node] | None = None,
        marks: list[Mark] | None = None,
    ) -> Node:
        if isinstance(type, str):
            type = self.node_type(type)
        elif not isinstance(type, NodeType):
            msg = f"Invalid node type: {type}"
            raise ValueError(msg)
        elif type.schema != self:
            msg = f"Node type from different schema used ({type.name})"
            raise ValueError(msg)
        return type.create_checked(attrs, content, marks)

    def text(self, text: str, marks: list[Mark] | None = None) -> TextNode:
        type = self.nodes[cast(Nodes, "text")]
        return TextNode(
            type,
            cast(Attrs, type.default_attrs),
            text,
            Mark.set_from(marks),
        )

    def mark(
        self,
        type: str | MarkType,
        attrs: Attrs | None = None,
    ) -> Mark:
        if isinstance(type, str):
            type = self.marks[cast(Marks, type)]
        return type.create(attrs)

    def node_from_json(self, json_data: JSONDict) -> Node | TextNode:
        return Node.from_json(self, json_data)

    def mark_from_json(
        self,
        json_data: JSONDict,
    ) -> Mark:
        return Mark.from_json(self, json_data)

    def node_type(self, name: str) -> NodeType:
        found = self.nodes.get(cast(Nodes, name))
        if not found:
            msg = f"Unknown node type: {name}"
            raise ValueError(msg)
        return found


def gather_marks(schema: Schema[Any, Any], marks: list[str]) -> list[MarkType]:
    found = []
    for name in marks:
        mark = schema.marks.get(name)
        ok = mark
        if mark:
            found.append(mark)
        else:
            for mark in schema.marks.values():
                if name == "_" or (
                    mark.spec.get("group") and name in mark.spec["group"].split(" ")
                ):
                    ok = mark
                    found.append(mark)
        if not ok:
            msg = f"unknow mark type: '{mark}'"
            raise SyntaxError(msg)
    return found
