import itertools
import re
from collections.abc import Callable
from dataclasses import dataclass
from typing import Any, Literal, cast

import lxml
from lxml.cssselect import CSSSelector
from lxml.html import HtmlElement as DOMNode

from prosemirror_ref.utils import Attrs, JSONDict

from .content import ContentMatch
from .fragment import Fragment
from .mark import Mark
from .node import Node, TextNode
from .replace import Slice
from .resolvedpos import ResolvedPos
from .schema import MarkType, NodeType, Schema

WSType = bool | Literal["full"] | None


@dataclass
class DOMPosition:
    node: DOMNode
    offset: int
    pos: int | None = None


@dataclass(frozen=True)
class ParseOptions:
    preserve_whitespace: WSType = None
    find_positions: list[DOMPosition] | None = None
    from_: int | None = None
    to_: int | None = None
    top_node: Node | None = None
    top_match: ContentMatch | None = None
    context: ResolvedPos | None = None
    rule_from_node: Callable[[DOMNode], "ParseRule"] | None = None
    top_open: bool | None = None


@dataclass
class ParseRule:
    tag: str | None
    namespace: str | None
    style: str | None
    priority: int | None
    consuming: bool | None
    context: str | None
    node: str | None
    mark: str | None
    clear_mark: Callable[[Mark], bool] | None
    ignore: bool | None
    close_parent: bool | None
    skip: bool | None
    attrs: Attrs | None
    get_attrs: Callable[[DOMNode], Attrs | Literal[False] | None] | None
    content_element: str | DOMNode | Callable[[DOMNode], DOMNode] | None
    get_content: Callable[[DOMNode, Schema[Any, Any]], Fragment] | None
    preserve_whitespace: WSType

    @classmethod
    def from_json(cls, data: dict[str, Any]) -> "ParseRule":
        return ParseRule(
            data.get("tag"),
            data.get("namespace"),
            data.get("style"),
            data.get("priority"),
            data.get("consuming"),
            data.get("context"),
            data.get("node"),
            data.get("mark"),
            data.get("clear_mark"),
            data.get("ignore"),
            data.get("close_parent"),
            data.get("skip"),
            data.get("attrs"),
            data.get("getAttrs"),
            data.get("contentElement"),
            data.get("getContent"),
            data.get("preserveWhitespace"),
        )


class DOMParser:
    _tags: list[ParseRule]
    _styles: list[ParseRule]
    _normalize_lists: bool

    schema: Schema[Any, Any]
    rules: list[ParseRule]

    def __init__(self, schema: Schema[Any, Any], rules: list[ParseRule]) -> None:
        self.schema = schema
        self.rules = rules
        self._tags = [rule for rule in rules if rule.tag is not None]

        self._styles = [rule for rule in rules if rule.style is not None]

        self.normalize_lists = not any([
            schema.nodes[r.node].content_match.match_type(schema.nodes[r.node])
            for r in self._tags
            if r.node is not None
            and r.tag is not None
            and re.match(r"^(ul|ol)\b", r.tag) is not None
        ])

    def parse(
        self,
        dom_: lxml.html.HtmlElement,
        options: ParseOptions | None = None,
    ) -> Node:
        if options is None:
            options = ParseOptions()

        context = ParseContext(self, options, False)

        for d in itertools.chain([dom_], dom_.iterdescendants()):
            if (
                isinstance(d.tag, str)  # comments and processing instructions have no tag name
                and d.text
                and d.tag.lower() != "lxmltext"
            ):
                child = lxml.html.Element("lxmltext")
                child.text = xml_compatible(d.text)
                d.insert(0, child)
                d.text = None

            if d.tail:
                parent = d.getparent()
                child = lxml.html.Element("lxmltext")
                child.text = xml_compatible(d.tail)
                parent.insert(parent.index(d) + 1, child)
                d.tail = None

        context.add_all(dom_, options.from_, options.to_)

        return cast(Node, context.finish())

    def parse_slice(self, dom_: DOMNode, options: ParseOptions | None = None) -> Slice:
        if options is None:
            options = ParseOptions(preserve_whitespace=True)

        context = ParseContext(self, options, True)

        context.add_all(dom_, options.from_, options.to_)

        return Slice.max_open(cast(Fragment, context.finish()))

    def match_tag(
        self,
        dom_: DOMNode,
        context: "ParseContext",
        after: ParseRule | None = None,
    ) -> ParseRule | None:
        try:
            i = self._tags.index(after) + 1 if after is not None else 0
        except ValueError:
            i = 0

        for rule in self._tags[i:]:
            if (
                rule.tag
                and matches(dom_, rule.tag)
                and (
                    rule.namespace is None
                    or (dom_.prefix and dom_.nsmap[dom_.prefix] == rule.namespace)
                )
                and (not rule.context or context.matches_context(rule.context))
            ):
                if rule.get_attrs is not None:
                    result = rule.get_attrs(dom_)
                    if result is False:
                        continue
                    rule.attrs = result

                return rule

        return None

    def match_style(
        self,
        prop: str,
        value: str,
        context: "ParseContext",
        after: ParseRule | None = None,
    ) -> ParseRule | None:
        i = self._styles.index(after) + 1 if after is not None else 0

        for rule in self._styles[i:]:
            style = rule.style

            if (
                style is None
                or not style.startswith(prop)
                or (rule.context and not context.matches_context(rule.context))
                or (
                    len(style) > len(prop)
                    and (ord(style[len(prop)]) != 61 or style[len(prop) + 1 :] != value)
                )
            ):
                continue

            if rule.get_attrs is not None:
                result = rule.get_attrs(value)

                if result is False:
                    continue

                rule.attrs = result

            return rule

        return None

    @classmethod
    def schema_rules(cls, schema: Schema[Any, Any]) -> list[ParseRule]:
        result: list[ParseRule] = []

        def insert(rule: ParseRule) -> None:
            priority = rule.priority if rule.priority is not None else 50
            i = 0

            while i < len(result):
                next = result[i]
                next_priority = next.priority if next.priority is not None else 50
                if next_priority < priority:
                    break
                i += 1

            result.insert(i, rule)
            return

        for name in schema.marks:
            rules = schema.marks[name].spec.get("parseDOM")

            if rules:
                for rule in rules:
                    copied_rule = ParseRule.from_json(rule)
                    insert(copied_rule)
                    if not (
                        copied_rule.mark or copied_rule.ignore or copied_rule.clear_mark
                    ):
                        copied_rule.mark = name

        for name in schema.nodes:
            rules = schema.nodes[name].spec.get("parseDOM")

            if rules:
                for rule in rules:
                    copied_rule = ParseRule.from_json(rule)
                    insert(copied_rule)
                    if not (
                        copied_rule.mark or copied_rule.ignore or copied_rule.clear_mark
                    ):
                        copied_rule.node = name

        return result

    @classmethod
    def from_schema(cls, schema: Schema[Any, Any]) -> "DOMParser":
        if "dom_parser" not in schema.cached:
            schema.cached["dom_parser"] = DOMParser(
                schema,
                DOMParser.schema_rules(schema),
            )

        return cast("DOMParser", schema.cached["dom_parser"])


BLOCK_TAGS: dict[str, bool] = {
    "address": True,
    "article": True,
    "aside": True,
    "blockquote": True,
    "canvas": True,
    "dd": True,
    "div": True,
    "dl": True,
    "fieldset": True,
    "figcaption": True,
    "figure": True,
    "footer": True,
    "form": True,
    "h1": True,
    "h2": True,
    "h3": True,
    "h4": True,
    "h5": True,
    "h6": True,
    "header": True,
    "hgroup": True,
    "hr": True,
    "li": True,
    "noscript": True,
    "ol": True,
    "output": True,
    "p": True,
    "pre": True,
    "section": True,
    "table": True,
    "tfoot": True,
    "ul": True,
}

IGNORE_TAGS: dict[str, bool] = {
    "head": True,
    "noscript": True,
    "object": True,
    "script": True,
    "style": True,
    "title": True,
}

LIST_TAGS: dict[str, bool] = {"ol": True, "ul": True}


OPT_PRESERVE_WS = 1
OPT_PRESERVE_WS_FULL = 2
OPT_OPEN_LEFT = 4


def ws_options_for(
    _type: NodeType | None,
    preserve_whitespace: WSType,
    base: int,
) -> int:
    if preserve_whitespace is not None:
        return (OPT_PRESERVE_WS if preserve_whitespace else 0) | (
            OPT_PRESERVE_WS_FULL if preserve_whitespace == "full" else 0
        )

    return (
        OPT_PRESERVE_WS | OPT_PRESERVE_WS_FULL
        if _type is not None and _type.whitespace == "pre"
        else base & ~OPT_OPEN_LEFT
    )


class NodeContext:
    match: ContentMatch | None
    content: list[Node]

    active_marks: list[Mark]
    stash_marks: list[Mark]

    type: NodeType | None
    options: int

    attrs: Attrs | None
    marks: list[Mark]
    pending_marks: list[Mark]

    solid: bool

    def __init__(
        self,
        _type: NodeType | None,
        attrs: Attrs | None,
        marks: list[Mark],
        pending_marks: list[Mark],
        solid: bool,
        match: ContentMatch | None,
        options: int,
    ) -> None:
        self.type = _type
        self.options = options
        self.attrs = attrs
        self.marks = marks
        self.pending_marks = pending_marks
        self.solid = solid

        if match is not None:
            self.match = match
        else:
            self.match = (
                None
                if options & OPT_OPEN_LEFT or _type is None
                else _type.content_match
            )

        self.content = []

        self.active_marks = Mark.none
        self.stash_marks = []

    def find_wrapping(self, node: Node) -> list[NodeType] | None:
        if not self.match:
            if not self.type:
                return []

            fill = self.type.content_match.fill_before(Fragment.from_(node))

            if fill is not None:
                self.match = self.type.content_match.match_fragment(fill)
            else:
                start = self.type.content_match
                wrap = start.find_wrapping(node.type)

                if wrap is not None:
                    self.match = start
                    return wrap
                else:
                    return None

        if not self.match:
            return None

        return self.match.find_wrapping(node.type)

    def finish(self, open_end: bool) -> Node | Fragment:
        if not self.options & OPT_PRESERVE_WS:
            try:
                last: Node | None = self.content[-1]
            except IndexError:
                last = None

            if last is not None and last.is_text:
                last = cast(TextNode, last)
                m = re.findall(r"[ \t\r\n\u000c]+$", last.text)

                if m:
                    if len(last.text) == len(m[0]):
                        self.content.pop()
                    else:
                        self.content[-1] = last.with_text(last.text[0 : -len(m[0])])

        content = Fragment.from_(self.content)
        if not open_end and self.match is not None:
            content = content.append(
                cast(Fragment, self.match.fill_before(Fragment.empty, True)),
            )

        return (
            self.type.create(self.attrs, content, self.marks) if self.type else content
        )

    def pop_from_stash_mark(self, mark: Mark) -> Mark | None:
        found_mark: Mark | None = None
        for stash_mark in self.stash_marks[::-1]:
            if mark.eq(stash_mark):
                found_mark = stash_mark

        if found_mark is not None:
            self.stash_marks.remove(found_mark)

        return found_mark

    def apply_pending(self, next_type: NodeType) -> None:
        pending = self.pending_marks
        for mark in pending:
            if (
                self.type.allows_mark_type(mark.type)
                if self.type is not None
                else mark_may_apply(mark.type, next_type)
            ) and not mark.is_in_set(self.active_marks):
                self.active_marks = mark.add_to_set(self.active_marks)
                self.pending_marks = mark.remove_from_set(self.pending_marks)

    def inline_context(self, node: DOMNode) -> bool:
        if self.type:
            return self.type.inline_content
        if self.content:
            return self.content[0].is_inline

        return node.getparent() and node.getparent().tag.lower() not in BLOCK_TAGS


class ParseContext:
    open: int = 0
    find: list[DOMPosition] | None
    needs_block: bool
    nodes: list[NodeContext]
    options: ParseOptions
    is_open: bool
    parser: DOMParser

    def __init__(self, parser: DOMParser, options: ParseOptions, is_open: bool) -> None:
        self.parser = parser
        self.options = options
        self.is_open = is_open

        top_node = options.top_node
        top_options = ws_options_for(None, options.preserve_whitespace, 0) | (
            OPT_OPEN_LEFT if is_open else 0
        )

        if top_node:
            top_context: NodeContext = NodeContext(
                top_node.type,
                top_node.attrs,
                Mark.none,
                Mark.none,
                True,
                options.top_match or top_node.type.content_match,
                top_options,
            )
        elif is_open:
            top_context = NodeContext(
                None,
                None,
                Mark.none,
                Mark.none,
                True,
                None,
                top_options,
            )
        else:
            top_context = NodeContext(
                parser.schema.top_node_type,
                None,
                Mark.none,
                Mark.none,
                True,
                None,
                top_options,
            )

        self.nodes = [top_context]
        self.find = options.find_positions
        self.needs_block = False

    @property
    def top(self) -> NodeContext:
        return self.nodes[self.open]

    def add_dom(self, dom_: DOMNode) -> None:
        if get_node_type(dom_) == 3:
            self.add_text_node(dom_)
        elif get_node_type(dom_) == 1:
            style = dom_.get("style") or ""

            if not style:
                self.add_element(dom_)
            else:
                marks = self.read_styles(parse_styles(style))

                if marks is None:
                    return None

                add_marks, remove_marks = marks
                top = self.top

                for remove_mark in remove_marks:
                    self.remove_pending_mark(remove_mark, top)
                for add_mark in add_marks:
                    self.add_pending_mark(add_mark)

                self.add_element(dom_)

                for add_mark in add_marks:
                    self.remove_pending_mark(add_mark, top)
                for remove_mark in remove_marks:
                    self.add_pending_mark(remove_mark)

        return None

    def add_text_node(self, dom_: DOMNode) -> None:
        value = dom_.text
        top = self.top

        if (
            top.options & OPT_PRESERVE_WS_FULL
            or top.inline_context(dom_)
            or re.search(r"[^ \t\r\n\u000c]", value) is not None
        ):
            if not (top.options & OPT_PRESERVE_WS):
                value = re.sub(r"[ \t\r\n\u000c]+", " ", value)

                if (
                    re.search(r"^[ \t\r\n\u000c]", value) is not None
                    and self.open == len(self.nodes) - 1
                ):
                    node_before = top.content[-1] if top.content else None
                    dom_node_before = dom_.getprevious()
                    if (
                        node_before is None
                        or (
                            dom_node_before is not None
                            and isinstance(dom_node_before.tag, str)
                            and dom_node_before.tag.upper() == "BR"
                        )
                        or (
                            node_before.is_text
                            and re.search(
                                r"[ \t\r\n\u000c]$",
                                cast(TextNode, node_before).text,
                            )
                            is not None
                        )
                    ):
                        value = value[1:]

            elif not (top.options & OPT_PRESERVE_WS_FULL):
                value = re.sub(r"\r?\n|\r", " ", value)
            else:
                value = re.sub(r"\r\n?", "\n", value)

            if value:
                self.insert_node(self.parser.schema.text(value))

            self.find_in_text(dom_)
        else:
            self.find_inside(dom_)

    def add_element(self, dom_: DOMNode, match_after: ParseRule | None = None) -> None:
        name = dom_.tag.lower()

        if name in LIST_TAGS and self.parser.normalize_lists:
            normalize_list(dom_)

        rule_id = self.parser.match_tag(dom_, self, match_after)
        rule = (
            self.options.rule_from_node(dom_)
            if self.options.rule_from_node
            else rule_id
        )

        if (rule and rule.ignore) or name in IGNORE_TAGS:
            self.find_inside(dom_)
            self.ignore_fallback(dom_)
        elif rule is None or rule.skip or rule.close_parent:
            if rule is not None and rule.close_parent:
                self.open = max(0, self.open - 1)
            elif rule is not None and get_node_type(cast(DOMNode, rule.skip)):
                dom_ = cast(DOMNode, rule.skip)

            top = self.top
            sync = False
            old_needs_block = self.needs_block
            if name in BLOCK_TAGS:
                if top.content and top.content[0].is_inline and self.open:
                    self.open -= 1
                    top = self.top

                sync = True

                if top.type is None:
                    self.needs_block = True

            elif not list(dom_):
                self.leaf_fallback(dom_)
                return

            self.add_all(dom_)

            if sync:
                self.sync(top)

            self.needs_block = old_needs_block

        else:
            self.add_element_by_rule(
                dom_,
                rule,
                rule_id if rule.consuming is False else None,
            )

    def leaf_fallback(self, dom_: DOMNode) -> None:
        if dom_.tag.upper() == "BR" and self.top.type and self.top.type.inline_content:
            child = lxml.html.Element("lxmltext")
            child.text = "\n"
            self.add_text_node(child)

    def ignore_fallback(self, dom_: DOMNode) -> None:
        if dom_.tag.upper() == "BR" and (
            not self.top.type or self.top.type.inline_content
        ):
            self.find_place(self.parser.schema.text("-"))

    def read_styles(self, styles: list[str]) -> tuple[list[Mark], list[Mark]] | None:
        add: list[Mark] = Mark.none
        remove: list[Mark] = Mark.none

        for i in range(0, len(styles), 2):
            after: ParseRule | None = None
            while True:
                rule = self.parser.match_style(styles[i], styles[i + 1], self, after)
                if not rule:
                    break
                if rule.ignore:
                    return None
                if rule.clear_mark is not None:
                    for m in self.top.pending_marks + self.top.active_marks:
                        if rule.clear_mark(m):
                            remove = m.add_to_set(remove)
                else:
                    add = (
                        self.parser.schema.marks[cast(str, rule.mark)]
                        .create(rule.attrs)
                        .add_to_set(add)
                    )

                if rule.consuming is False:
                    after = rule
                else:
                    break

        return add, remove

    def add_element_by_rule(
        self,
        dom_: DOMNode,
        rule: ParseRule,
        continue_after: ParseRule | None = None,
    ) -> None:
        sync: bool = False
        mark: Mark | None = None
        node_type: NodeType | None = None

        if rule.node is not None:
            node_type = self.parser.schema.nodes[rule.node]
            if node_type and not node_type.is_leaf:
                sync = self.enter(node_type, rule.attrs, rule.preserve_whitespace)
            elif node_type and not self.insert_node(node_type.create(rule.attrs)):
                self.leaf_fallback(dom_)
        elif rule.mark is not None:
            mark_type = self.parser.schema.marks[rule.mark]
            mark = mark_type.create(rule.attrs)
            if mark is not None:
                self.add_pending_mark(mark)

        start_in = self.top
        if node_type and node_type.is_leaf:
            self.find_inside(dom_)
        elif continue_after is not None:
            self.add_element(dom_, continue_after)
        elif rule.get_content is not None:
            self.find_inside(dom_)
            rule.get_content(dom_, self.parser.schema).for_each(
                lambda node, offset, index: self.insert_node(node),
            )
        else:
            content_dom = dom_

            if isinstance(rule.content_element, str):
                content_dom = dom_.cssselect(rule.content_element)
            elif callable(rule.content_element):
                content_dom = rule.content_element(dom_)
            elif rule.content_element is not None:
                content_dom = rule.content_element

            self.find_around(dom_, content_dom, True)
            self.add_all(content_dom)

        if sync and self.sync(start_in):
            self.open -= 1

        if mark is not None:
            self.remove_pending_mark(mark, start_in)

    def add_all(
        self,
        parent: DOMNode,
        start_index: int | None = None,
        end_index: int | None = None,
    ) -> None:
        index = start_index if start_index is not None else 0

        try:
            dom_ = list(parent)[index]
        except IndexError:
            pass
        else:
            end = None if end_index is None else list(parent)[end_index]

            while dom_ != end:
                self.find_at_point(parent, index)
                self.add_dom(dom_)

                dom_ = dom_.getnext()
                index += 1

        self.find_at_point(parent, index)

    def find_place(self, node: Node) -> bool:
        route: list[NodeType] | None = None
        sync: NodeContext | None = None

        depth = self.open
        while depth >= 0:
            cx = self.nodes[depth]
            found = cx.find_wrapping(node)
            if found is not None and (route is None or len(route) > len(found)):
                route = found
                sync = cx

                if found is None:
                    break

            if cx.solid:
                break

            depth -= 1

        if route is None:
            return False

        if sync is not None:
            self.sync(sync)

        for r in route:
            self.enter_inner(r, None, False)

        return True

    def insert_node(self, node: Node) -> bool:
        if node.is_inline and self.needs_block and self.top.type is None:
            block = self.textblock_from_context()
            if block is not None:
                self.enter_inner(block)

        if self.find_place(node):
            self.close_extra()

            top = self.top
            top.apply_pending(node.type)

            if top.match is not None:
                top.match = top.match.match_type(node.type)

            marks = top.active_marks
            for mark in node.marks:
                if top.type is None or top.type.allows_mark_type(mark.type):
                    marks = mark.add_to_set(marks)

            top.content.append(node.mark(marks))

            return True

        return False

    def enter(
        self,
        type_: NodeType,
        attrs: Attrs | None = None,
        preserve_ws: WSType = None,
    ) -> bool:
        ok = self.find_place(type_.create(attrs))
        if ok:
            self.enter_inner(type_, attrs, True, preserve_ws)

        return ok

    def enter_inner(
        self,
        type_: NodeType,
        attrs: Attrs | None = None,
        solid: bool = False,
        preserve_ws: WSType = None,
    ) -> None:
        self.close_extra()

        top = self.top
        top.apply_pending(type_)

        if top.match is not None:
            top.match = top.match.match_type(type_)

        options = ws_options_for(type_, preserve_ws, top.options)

        if (top.options & OPT_OPEN_LEFT) and len(top.content) == 0:
            options |= OPT_OPEN_LEFT

        self.nodes.append(
            NodeContext(
                type_,
                attrs,
                top.active_marks,
                top.pending_marks,
                solid,
                None,
                options,
            ),
        )

        self.open += 1

    def close_extra(self, open_end: bool = False) -> None:
        i = len(self.nodes) - 1

        if i > self.open:
            while i > self.open:
                self.nodes[i - 1].content.append(
                    cast(Node, self.nodes[i].finish(open_end)),
                )
                i -= 1

            self.nodes = self.nodes[: self.open + 1]

    def finish(self) -> Node | Fragment:
        self.open = 0
        self.close_extra(self.is_open)
        return self.nodes[0].finish(self.is_open or bool(self.options.top_open))

    def sync(self, to_: NodeContext) -> bool:
        i = self.open
        while i >= 0:
            if self.nodes[i] == to_:
                self.open = i
                return True
            i -= 1

        return False

    @property
    def current_pos(self) -> int:
        self.close_extra()
        pos = 0

        i = self.open
        while i >= 0:
            content = self.nodes[i].content

            for c in content[::-1]:
                pos += c.node_size

            if i:
                pos += 1

            i -= 1

        return pos

    def find_at_point(self, parent: DOMNode, offset: int) -> None:
        if self.find is not None:
            for f in self.find:
                if f.node == parent and f.offset == offset:
                    f.pos = self.current_pos

    def find_inside(self, parent: DOMNode) -> None:
        if self.find is not None:
            for f in self.find:
                if (
                    f.pos is None
                    and get_node_type(parent) == 1
                    and node_contains(parent, f.node)
                ):
                    f.pos = self.current_pos

    def find_around(self, parent: DOMNode, content: DOMNode, before: bool) -> None:
        if parent != content and self.find is not None:
            for f in self.find:
                if (
                    f.pos is None
                    and get_node_type(parent) == 1
                    and node_contains(parent, f.node)
                ):
                    pos = compare_document_position(content, f.node)
                    if pos & (2 if before else 4):
                        f.pos = self.current_pos

    def find_in_text(self, text_node: DOMNode) -> None:
        if self.find is not None:
            for f in self.find:
                if f.node == text_node:
                    f.pos = self.current_pos - (len(text_node.text) - f.offset)

    def matches_context(self, context: str) -> bool:
        if "|" in context:
            return any([
                self.matches_context(s) for s in re.split(r"\s*\|\s*", context)
            ])

        parts = context.split("/")
        option = self.options.context
        use_root = not self.is_open and (
            option is None or option.parent.type == self.nodes[0].type
        )
        min_depth = -(option.depth + 1 if option is not None else 0) + int(not use_root)

        def match(i: int, depth: int) -> bool:
            while i >= 0:
                part = parts[i]

                if part == "":
                    if i == len(parts) - 1 or i == 0:
                        i -= 1
                        continue
                    while depth >= min_depth:
                        if match(i - 1, depth):
                            return True
                        depth -= 1
                    return False
                else:
                    if depth > 0 or (depth == 0 and use_root):
                        next: NodeType | None = self.nodes[depth].type
                    elif option is not None and depth >= min_depth:
                        next = option.node(depth - min_depth).type
                    else:
                        next = None

                    if next is None:
                        return False

                    if next.name != part and part not in next.groups:
                        return False

                    depth -= 1
                i -= 1
            return True

        return match(len(parts) - 1, self.open)

    def textblock_from_context(self) -> NodeType | None:
        context = self.options.context

        if context:
            d = context.depth
            while d >= 0:
                default = (
                    context.node(d)
                    .content_match_at(context.index_after(d))
                    .default_type
                )

                if (
                    default is not None
                    and default.is_textblock
                    and default.default_attrs
                ):
                    return default

                d -= 1

        for type_ in self.parser.schema.nodes.values():
            if type_.is_textblock and type_.default_attrs:
                return type_

        return None

    def add_pending_mark(self, mark: Mark) -> None:
        found = find_same_mark_in_set(mark, self.top.pending_marks)

        if found is not None:
            self.top.stash_marks.append(found)

        self.top.pending_marks = mark.add_to_set(self.top.pending_marks)

    def remove_pending_mark(self, mark: Mark, upto: NodeContext) -> None:
        depth = self.open
        while depth >= 0:
            level = self.nodes[depth]
            try:
                level.pending_marks.index(mark)
            except ValueError:
                level.active_marks = mark.remove_from_set(level.active_marks)
                stash_mark = level.pop_from_stash_mark(mark)

                if (
                    stash_mark is not None
                    and level.type is not None
                    and level.type.allows_mark_type(stash_mark.type)
                ):
                    level.active_marks = stash_mark.add_to_set(level.active_marks)
            else:
                level.pending_marks = mark.remove_from_set(level.pending_marks)

            if level == upto:
                break

            depth -= 1


def normalize_list(dom_: DOMNode) -> None:
    child = next(iter(dom_), None)
    prev_item: DOMNode | None = None

    while child is not None:
        name = child.tag.lower() if get_node_type(child) == 1 else None

        if name and name in LIST_TAGS and prev_item:
            prev_item.append(child)
            child = prev_item
        elif name == "li":
            prev_item = child
        elif name:
            prev_item = None

        child = child.getnext()


def matches(dom_: DOMNode, selector_str: str) -> bool:
    selector = CSSSelector(selector_str)

    return bool(dom_ in selector(dom_))  # type: ignore[operator]


def parse_styles(style: str) -> list[str]:
    regex = r"\s*([\w-]+)\s*:\s*([^;]+)"
    result: list[str] = []

    for m in re.findall(regex, style):
        result.append(m[0])
        result.append(m[1])

    return result


def mark_may_apply(mark_type: MarkType, node_type: NodeType) -> bool:
    nodes = node_type.schema.nodes

    for parent in nodes.values():
        if not parent.allows_mark_type(mark_type):
            continue

        seen: list[ContentMatch] = []

        def scan(match: ContentMatch) -> bool:
            seen.append(match)  # noqa: B023
            i = 0
            while i < match.edge_count:
                result = match.edge(i)
                _type = result.type
                _next = result.next

                if _type == node_type:
                    return True
                if _next not in seen and scan(_next):  # noqa: B023
                    return True

                i += 1
            return False

        if scan(parent.content_match):
            return True

    return False


def find_same_mark_in_set(mark: Mark, mark_set: list[Mark]) -> Mark | None:
    for comp in mark_set:
        if mark.eq(comp):
            return comp

    return None


def node_contains(node: DOMNode, find: DOMNode) -> bool:
    return any(child_node == find for child_node in node.iterdescendants())


def compare_document_position(node1: DOMNode, node2: DOMNode) -> int:
    if not isinstance(node1, lxml.etree._Element) or not isinstance(
        node2,
        lxml.etree._Element,
    ):
        msg = "Both arguments must be lxml Element objects."
        raise ValueError(msg)

    tree = lxml.etree.ElementTree(node1)

    # Get the XPath for the nodes
    xpath_node1 = tree.getpath(node1)
    xpath_node2 = tree.getpath(node2)

    found = []
    for nnode in tree.getroot().iterdescendants():
        if nnode in [node1, node2]:
            found.append(nnode)

    if len(found) == 2 and found[0] == node1:
        return 4
    elif len(found) == 2 and found[0] == node2:
        return 2

    # Compare the XPaths
    if xpath_node1 == xpath_node2:
        return 0  # Same node
    elif xpath_node1.startswith(xpath_node2):
        return 8  # Contains
    elif xpath_node2.startswith(xpath_node1):
        return 16  # Contained by
    else:
        return 1  # Disconnected


_XML_INCOMPATIBLE = re.compile("[\x00-\x08\x0b\x0c\x0e-\x1f]")


def xml_compatible(text: str) -> str:
    """lxml refuses to store control characters that its HTML parser lets through
    (`&#12;`, a raw form feed, `&#1;`): form feed and vertical tab are white space,
    anything else becomes the replacement character."""
    return _XML_INCOMPATIBLE.sub(
        lambda m: " " if m.group() in "\x0b\x0c" else "\ufffd",
        text,
    )


def get_node_type(element: DOMNode) -> int:
    if not isinstance(element, lxml.etree._Element):
        msg = "The provided element is not an lxml HtmlElement."
        raise ValueError(msg)

    if isinstance(element, lxml.etree._Comment):
        return 8  # Comment node type
    elif isinstance(element, lxml.etree._Entity):
        return 6  # Entity reference node type
    elif element.tag.lower() == "lxmltext":
        return 3  # Faked text node type
    elif element.tag.lower() == "document-fragment":
        return 11
    elif isinstance(element, lxml.etree._Element):
        return 1
    elif element.text and element.text.strip():
        return 3

    return 8


def from_html(schema: Schema[Any, Any], html: str) -> JSONDict:
    # what `fragment_fromstring(html, create_parent="document-fragment")` does, with the
    # leading text made XML-compatible before it is stored on the new root
    parts = lxml.html.fragments_fromstring(html)
    fragment = lxml.html.Element("document-fragment")
    if parts and isinstance(parts[0], str):
        fragment.text = xml_compatible(parts.pop(0))
    fragment.extend(parts)

    prose_doc = DOMParser.from_schema(schema).parse(fragment)

    return prose_doc.to_json()
