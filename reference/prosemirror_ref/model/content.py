import re
from functools import cmp_to_key, reduce
from typing import (
    TYPE_CHECKING,
    ClassVar,
    Literal,
    NamedTuple,
    NoReturn,
    Optional,
    TypedDict,
    cast,
)

from .fragment import Fragment

if TYPE_CHECKING:
    from .node import Node
    from .schema import NodeType


class MatchEdge:
    type: "NodeType"
    next: "ContentMatch"

    def __init__(self, type: "NodeType", next: "ContentMatch") -> None:
        self.type = type
        self.next = next


class WrapCacheEntry:
    target: "NodeType"
    computed: list["NodeType"] | None

    def __init__(self, target: "NodeType", computed: list["NodeType"] | None) -> None:
        self.target = target
        self.computed = computed


class Active(TypedDict):
    match: "ContentMatch"
    type: Optional["NodeType"]
    via: Optional["Active"]


class ContentMatch:
    """
    Instances of this class represent a match state of a node type's
    [content expression](#model.NodeSpec.content), and can be used to
    find out whether further content matches here, and whether a given
    position is a valid end of the node.
    """

    empty: ClassVar["ContentMatch"]
    valid_end: bool
    next: list[MatchEdge]
    wrap_cache: list[WrapCacheEntry]

    def __init__(self, valid_end: bool) -> None:
        self.valid_end = valid_end
        self.next = []
        self.wrap_cache = []

    @classmethod
    def parse(cls, string: str, node_types: dict[str, "NodeType"]) -> "ContentMatch":
        stream = TokenStream(string, node_types)
        if stream.next() is None:
            return ContentMatch.empty
        expr = parse_expr(stream)
        if stream.next() is not None:
            stream.err("Unexpected trailing text")
        match = dfa(nfa(expr))
        check_for_dead_ends(match, stream)
        return match

    def match_type(self, type: "NodeType") -> Optional["ContentMatch"]:
        for next in self.next:
            if next.type.name == type.name:
                return next.next
        return None

    def match_fragment(
        self,
        frag: Fragment,
        start: int = 0,
        end: int | None = None,
    ) -> Optional["ContentMatch"]:
        if end is None:
            end = frag.child_count
        cur: ContentMatch | None = self
        i = start
        while cur and i < end:
            cur = cur.match_type(frag.child(i).type)
            i += 1
        return cur

    @property
    def inline_content(self) -> bool:
        return bool(self.next) and self.next[0].type.is_inline

    @property
    def default_type(self) -> Optional["NodeType"]:
        for next in self.next:
            type = next.type
            if not (type.is_text or type.has_required_attrs()):
                return type
        return None

    def compatible(self, other: "ContentMatch") -> bool:
        for i in self.next:
            for j in other.next:
                if i.type.name == j.type.name:
                    return True
        return False

    def fill_before(
        self,
        after: Fragment,
        to_end: bool = False,
        start_index: int = 0,
    ) -> Fragment | None:
        seen = [self]

        def search(match: ContentMatch, types: list["NodeType"]) -> Fragment | None:
            nonlocal seen
            finished = match.match_fragment(after, start_index)
            if finished and (not to_end or finished.valid_end):
                return Fragment.from_([
                    cast("Node", tp.create_and_fill()) for tp in types
                ])
            for i in match.next:
                type = i.type
                next = i.next
                if not (type.is_text or type.has_required_attrs()) and next not in seen:
                    seen.append(next)
                    found = search(next, [*types, type])
                    if found:
                        return found
            return None

        return search(self, [])

    def find_wrapping(self, target: "NodeType") -> list["NodeType"] | None:
        for entry in self.wrap_cache:
            if entry.target.name == target.name:
                return entry.computed
        computed = self.compute_wrapping(target)
        self.wrap_cache.append(WrapCacheEntry(target, computed))
        return computed

    def compute_wrapping(self, target: "NodeType") -> list["NodeType"] | None:
        seen = {}
        active: list[Active] = [{"match": self, "type": None, "via": None}]
        while len(active):
            current = active.pop(0)
            match = current["match"]
            if match.match_type(target):
                result = []
                obj = current
                while obj["type"]:
                    result.append(obj["type"])
                    obj = cast(Active, obj["via"])
                return list(reversed(result))
            for i in range(len(match.next)):
                type = match.next[i].type
                if (
                    not type.is_leaf
                    and not type.has_required_attrs()
                    and type.name not in seen
                    and (not current["type"] or match.next[i].next.valid_end)
                ):
                    active.append({
                        "match": type.content_match,
                        "via": current,
                        "type": type,
                    })
                    seen[type.name] = True
        return None

    @property
    def edge_count(self) -> int:
        return len(self.next)

    def edge(self, n: int) -> MatchEdge:
        if n >= len(self.next):
            msg = f"There's no {n}th edge in this content match"
            raise ValueError(msg)
        return self.next[n]

    def __str__(self) -> str:
        seen = []

        def scan(m: "ContentMatch") -> None:
            nonlocal seen
            seen.append(m)
            for i in m.next:
                if i.next not in seen:
                    scan(i.next)

        scan(self)

        def iteratee(m: "ContentMatch", i: int) -> str:
            out = str(i) + ("*" if m.valid_end else " ") + " "
            for i in range(len(m.next)):
                out += (
                    (", " if i else "")
                    + m.next[i].type.name
                    + "->"
                    + str(seen.index(m.next[i].next))
                )
            return out

        return "\n".join((iteratee(m, i)) for i, m in enumerate(seen))


ContentMatch.empty = ContentMatch(True)


TOKEN_REGEX = re.compile(r"\w+|\W")


class TokenStream:
    inline: bool | None
    tokens: list[str]

    def __init__(self, string: str, node_types: dict[str, "NodeType"]) -> None:
        self.string = string
        self.node_types = node_types
        self.inline = None
        self.pos = 0
        self.tokens = [i for i in TOKEN_REGEX.findall(string) if i.strip()]

    def next(self) -> str | None:
        try:
            return self.tokens[self.pos]
        except IndexError:
            return None

    def eat(self, tok: str) -> int | bool:
        if self.next() == tok:
            pos = self.pos
            self.pos += 1
            return pos or True
        else:
            return False

    def err(self, str: str) -> NoReturn:
        msg = f'{str} (in content expression) "{self.string}"'
        raise SyntaxError(msg)


class ChoiceExpr(TypedDict):
    type: Literal["choice"]
    exprs: list["Expr"]


class SeqExpr(TypedDict):
    type: Literal["seq"]
    exprs: list["Expr"]


class PlusExpr(TypedDict):
    type: Literal["plus"]
    expr: "Expr"


class StarExpr(TypedDict):
    type: Literal["star"]
    expr: "Expr"


class OptExpr(TypedDict):
    type: Literal["opt"]
    expr: "Expr"


class RangeExpr(TypedDict):
    type: Literal["range"]
    min: int
    max: int
    expr: "Expr"


class NameExpr(TypedDict):
    type: Literal["name"]
    value: "NodeType"


Expr = ChoiceExpr | SeqExpr | PlusExpr | StarExpr | OptExpr | RangeExpr | NameExpr


def parse_expr(stream: TokenStream) -> Expr:
    exprs = []
    while True:
        exprs.append(parse_expr_seq(stream))
        if not stream.eat("|"):
            break
    if len(exprs) == 1:
        return exprs[0]
    return {"type": "choice", "exprs": exprs}


def parse_expr_seq(stream: TokenStream) -> Expr:
    exprs = []
    while True:
        exprs.append(parse_expr_subscript(stream))
        next_ = stream.next()
        if not (next_ and next_ != ")" and next_ != "|"):
            break
    if len(exprs) == 1:
        return exprs[0]
    return {"type": "seq", "exprs": exprs}


def parse_expr_subscript(stream: TokenStream) -> Expr:
    expr = parse_expr_atom(stream)
    while True:
        if stream.eat("+"):
            expr = {"type": "plus", "expr": expr}
        elif stream.eat("*"):
            expr = {"type": "star", "expr": expr}
        elif stream.eat("?"):
            expr = {"type": "opt", "expr": expr}
        elif stream.eat("{"):
            expr = parse_expr_range(stream, expr)
        else:
            break
    return expr


NUMBER_REGEX = re.compile(r"\D")


def parse_num(stream: TokenStream) -> int:
    next = stream.next()
    assert next is not None
    if NUMBER_REGEX.match(next):
        stream.err(f'Expected number, got "{next}"')
    result = int(next)
    stream.pos += 1
    return result


def parse_expr_range(stream: TokenStream, expr: Expr) -> Expr:
    min_ = parse_num(stream)
    max_ = min_
    if stream.eat(","):
        max_ = parse_num(stream) if stream.next() != "}" else -1
    if not stream.eat("}"):
        stream.err("Unclosed braced range")
    return {"type": "range", "min": min_, "max": max_, "expr": expr}


def resolve_name(stream: TokenStream, name: str) -> list["NodeType"]:
    types = stream.node_types
    type = types.get(name)
    if type:
        return [type]
    result = []
    for _, type in types.items():
        if name in type.groups:
            result.append(type)
    if not result:
        stream.err(f'No node type or group "{name}" found')
    return result


def parse_expr_atom(
    stream: TokenStream,
) -> Expr:
    if stream.eat("("):
        expr = parse_expr(stream)
        if not stream.eat(")"):
            stream.err("missing closing patren")
        return expr
    elif not re.match(r"\W", cast(str, stream.next())):

        def iteratee(type: "NodeType") -> Expr:
            nonlocal stream
            if stream.inline is None:
                stream.inline = type.is_inline
            elif stream.inline != type.is_inline:
                stream.err("Mixing inline and block content")
            return {"type": "name", "value": type}

        exprs = [
            iteratee(type) for type in resolve_name(stream, cast(str, stream.next()))
        ]
        stream.pos += 1
        if len(exprs) == 1:
            return exprs[0]
        return {"type": "choice", "exprs": exprs}
    else:
        stream.err(f'Unexpected token "{stream.next()}"')


class Edge(TypedDict):
    term: Optional["NodeType"]
    to: int | None


def nfa(
    expr: Expr,
) -> list[list[Edge]]:
    nfa_: list[list[Edge]] = [[]]

    def node() -> int:
        nonlocal nfa_
        nfa_.append([])
        return len(nfa_) - 1

    def edge(
        from_: int,
        to: int | None = None,
        term: Optional["NodeType"] = None,
    ) -> Edge:
        nonlocal nfa_
        edge: Edge = {"term": term, "to": to}
        nfa_[from_].append(edge)
        return edge

    def connect(edges: list[Edge], to: int) -> None:
        for edge in edges:
            edge["to"] = to

    def compile(expr: Expr, from_: int) -> list[Edge]:
        if expr["type"] == "choice":
            return list(
                reduce(
                    lambda out, expr: [*out, *compile(expr, from_)],
                    expr["exprs"],
                    cast(list[Edge], []),
                ),
            )
        elif expr["type"] == "seq":
            i = 0
            while True:
                next_ = compile(expr["exprs"][i], from_)
                if i == len(expr["exprs"]) - 1:
                    return next_
                from_ = node()
                connect(next_, from_)
                i += 1
        elif expr["type"] == "star":
            loop = node()
            edge(from_, loop)
            connect(compile(expr["expr"], loop), loop)
            return [edge(loop)]
        elif expr["type"] == "plus":
            loop = node()
            connect(compile(expr["expr"], from_), loop)
            connect(compile(expr["expr"], loop), loop)
            return [edge(loop)]
        elif expr["type"] == "opt":
            return [edge(from_), *compile(expr["expr"], from_)]
        elif expr["type"] == "range":
            cur = from_
            for _i in range(expr["min"]):
                next = node()
                connect(compile(expr["expr"], cur), next)
                cur = next
            if expr["max"] == -1:
                if cur == from_:
                    # `{0,}`: loop on a node of its own (as `*` does), not on the
                    # entry node, which alternatives of an enclosing choice share
                    cur = node()
                    edge(from_, cur)
                connect(compile(expr["expr"], cur), cur)
            else:
                for _i in range(expr["min"], expr["max"]):
                    next = node()
                    edge(cur, next)
                    connect(compile(expr["expr"], cur), next)
                    cur = next
            return [edge(cur)]
        elif expr["type"] == "name":
            return [edge(from_, None, expr["value"])]

    connect(compile(expr, 0), node())
    return nfa_


def cmp(a: int, b: int) -> int:
    return b - a


def null_from(
    nfa: list[list[Edge]],
    node: int,
) -> list[int]:
    result = []
    skipped: set[int] = set()

    def scan(n: int) -> None:
        nonlocal result
        edges = nfa[n]
        if len(edges) == 1 and not edges[0].get("term"):
            # a repetition of a nullable expression, e.g. `(a?)+`, makes a cycle of such nodes
            if n in skipped:
                return None
            skipped.add(n)
            return scan(cast(int, edges[0]["to"]))
        result.append(n)
        for edge in edges:
            term, to = edge.get("term"), edge.get("to")
            if not term and to not in result:
                scan(cast(int, to))

    scan(node)
    return sorted(result)


class DFAState(NamedTuple):
    state: "NodeType"
    next: list[int]


def dfa(nfa: list[list[Edge]]) -> ContentMatch:
    labeled = {}

    def explore(states: list[int]) -> ContentMatch:
        nonlocal labeled
        out: list[DFAState] = []
        for node in states:
            for item in nfa[node]:
                term, to = item.get("term"), item.get("to")
                if not term:
                    continue
                set: list[int] | None = None
                for t in out:
                    if t[0] == term:
                        set = t[1]
                for n in null_from(nfa, cast(int, to)):
                    if set is None:
                        set = []
                        out.append(DFAState(term, set))
                    if n not in set:
                        set.append(n)
        state = ContentMatch((len(nfa) - 1) in states)
        labeled[",".join([str(s) for s in states])] = state
        for i in range(len(out)):
            out[i][1].sort(key=cmp_to_key(cmp))
            states = out[i][1]
            find_by_key = ",".join(str(s) for s in states)
            state.next.append(
                MatchEdge(out[i][0], labeled.get(find_by_key) or explore(states)),
            )
        return state

    return explore(null_from(nfa, 0))


def check_for_dead_ends(match: ContentMatch, stream: TokenStream) -> None:
    work = [match]
    i = 0
    while i < len(work):
        state = work[i]
        for j in range(len(state.next)):
            next = state.next[j].next
            if next not in work:
                work.append(next)
        i += 1
    # the states from which a valid end can be reached through generatable nodes
    # only (a state that merely *offers* a generatable node is not enough: in
    # `(a a)* a img` every state does, yet no match can end without the `img`)
    live = [state for state in work if state.valid_end]
    changed = True
    while changed:
        changed = False
        for state in work:
            if state in live:
                continue
            for j in range(len(state.next)):
                node = state.next[j].type
                if state.next[j].next in live and not (
                    node.is_text or node.has_required_attrs()
                ):
                    live.append(state)
                    changed = True
                    break
    for state in work:
        if state not in live:
            nodes = [
                state.next[j].type.name
                for j in range(len(state.next))
                if state.next[j].next in live
            ] or [state.next[j].type.name for j in range(len(state.next))]
            stream.err(
                f'Only non-generatable nodes ({", ".join(nodes)}) in a required '
                "position (see https://prosemirror.net/docs/guide/#generatable)",
            )
