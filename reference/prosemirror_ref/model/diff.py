from typing import TYPE_CHECKING, TypedDict

from . import node as pm_node

if TYPE_CHECKING:
    from prosemirror_ref.model.fragment import Fragment


class Diff(TypedDict):
    a: int
    b: int


def find_diff_start(a: "Fragment", b: "Fragment", pos: int) -> int | None:
    i = 0
    while True:
        if a.child_count == i or b.child_count == i:
            return None if a.child_count == b.child_count else pos
        child_a, child_b = a.child(i), b.child(i)
        if child_a == child_b:
            pos += child_a.node_size
            i += 1
            continue
        if not child_a.same_markup(child_b):
            return pos
        if child_a.is_text:
            assert isinstance(child_a, pm_node.TextNode)
            assert isinstance(child_b, pm_node.TextNode)
            if child_a.text != child_b.text:
                # positions count UTF-16 code units, so compare the texts unit by unit
                units_a = child_a.text.encode("utf-16-le")
                units_b = child_b.text.encode("utf-16-le")
                j = 0
                while (
                    2 * j < len(units_a)
                    and 2 * j < len(units_b)
                    and units_a[2 * j : 2 * j + 2] == units_b[2 * j : 2 * j + 2]
                ):
                    j += 1
                return pos + j
        if child_a.content.size or child_b.content.size:
            inner = find_diff_start(child_a.content, child_b.content, pos + 1)
            if inner:
                return inner
        pos += child_a.node_size
        i += 1


def find_diff_end(a: "Fragment", b: "Fragment", pos_a: int, pos_b: int) -> Diff | None:
    i_a, i_b = a.child_count, b.child_count
    while True:
        if i_a == 0 or i_b == 0:
            if i_a == i_b:
                return None
            else:
                return {"a": pos_a, "b": pos_b}
        i_a -= 1
        i_b -= 1
        child_a, child_b = a.child(i_a), b.child(i_b)
        size = child_a.node_size
        if child_a == child_b:
            pos_a -= size
            pos_b -= size
            continue

        if not child_a.same_markup(child_b):
            return {"a": pos_a, "b": pos_b}

        if child_a.is_text:
            assert isinstance(child_a, pm_node.TextNode)
            assert isinstance(child_b, pm_node.TextNode)
            if child_a.text != child_b.text:
                # positions count UTF-16 code units, so compare the texts unit by unit
                units_a = child_a.text.encode("utf-16-le")
                units_b = child_b.text.encode("utf-16-le")
                len_a, len_b = len(units_a) // 2, len(units_b) // 2
                same, min_size = 0, min(len_a, len_b)
                while (
                    same < min_size
                    and units_a[2 * (len_a - same - 1) : 2 * (len_a - same)]
                    == units_b[2 * (len_b - same - 1) : 2 * (len_b - same)]
                ):
                    same += 1
                    pos_a -= 1
                    pos_b -= 1
                return {"a": pos_a, "b": pos_b}

        if child_a.content.size or child_b.content.size:
            inner = find_diff_end(
                child_a.content,
                child_b.content,
                pos_a - 1,
                pos_b - 1,
            )
            if inner:
                return inner

        pos_a -= size
        pos_b -= size
