from prosemirror_ref.utils import JSON


def compare_deep(a: JSON, b: JSON) -> bool:
    return a == b
