from collections.abc import Callable, Iterable, Sequence
from typing import (
    TYPE_CHECKING,
    Any,
    ClassVar,
    Optional,
    Union,
    cast,
)

from prosemirror_ref.utils import JSON, JSONList, text_length

if TYPE_CHECKING:
    from prosemirror_ref.model.schema import Schema

    from .diff import Diff
    from .node import Node, TextNode


def ret_index(index: int, offset: int) -> dict[str, int]:
    return {"index": index, "offset": offset}


class Fragment:
    empty: ClassVar["Fragment"]
    content: list["Node"]
    size: int

    def __init__(self, content: list["Node"], size: int | None = None) -> None:
        self.content = content
        self.size = size if size is not None else sum(c.node_size for c in content)

    def nodes_between(
        self,
        from_: int,
        to: int,
        f: Callable[["Node", int, Optional["Node"], int], bool | None],
        node_start: int = 0,
        parent: Optional["Node"] = None,
    ) -> None:
        i = 0
        pos = 0
        while pos < to:
            child = self.content[i]
            end = pos + child.node_size
            if (
                end > from_
                and f(child, node_start + pos, parent, i) is not False
                and getattr(child.content, "size", None)
            ):
                start = pos + 1
                child.nodes_between(
                    max(0, from_ - start),
                    min(child.content.size, to - start),
                    f,
                    node_start + start,
                )
            pos = end
            i += 1

    def descendants(
        self,
        f: Callable[["Node", int, Optional["Node"], int], bool | None],
    ) -> None:
        self.nodes_between(0, self.size, f)

    def text_between(
        self,
        from_: int,
        to: int,
        block_separator: str = "",
        leaf_text: Callable[["Node"], str] | str = "",
    ) -> str:
        text = []
        separated = True

        def iteratee(
            node: "Node",
            pos: int,
            _parent: Optional["Node"],
            _to: int,
        ) -> None:
            nonlocal text
            nonlocal separated
            if node.is_text:
                text_node = cast("TextNode", node)
                text.append(text_node.text_between(max(from_, pos) - pos, to - pos))
                separated = not block_separator
            elif node.is_leaf:
                if leaf_text:
                    text.append(leaf_text(node) if callable(leaf_text) else leaf_text)
                elif node.type.spec.get("leafText") is not None:
                    text.append(node.type.spec["leafText"](node))
                separated = not block_separator
            elif not separated and node.is_block:
                text.append(block_separator)
                separated = True

        self.nodes_between(from_, to, iteratee, 0)
        return "".join(text)

    def append(self, other: "Fragment") -> "Fragment":
        if not other.size:
            return self
        if not self.size:
            return other
        last, first, content, i = (
            self.last_child,
            other.first_child,
            self.content.copy(),
            0,
        )
        assert last is not None
        assert first is not None
        if pm_node.is_text(last) and last.same_markup(first):
            assert isinstance(first, pm_node.TextNode)
            content[len(content) - 1] = last.with_text(last.text + first.text)
            i = 1
        while i < len(other.content):
            content.append(other.content[i])
            i += 1
        return Fragment(content, self.size + other.size)

    def cut(self, from_: int, to: int | None = None) -> "Fragment":
        if to is None:
            to = self.size
        if from_ == 0 and to == self.size:
            return self
        result: list[Node] = []
        size = 0
        if to <= from_:
            return Fragment(result, size)
        i, pos = 0, 0
        while pos < to:
            child = self.content[i]
            end = pos + child.node_size
            if end > from_:
                if pos < from_ or end > to:
                    if pm_node.is_text(child):
                        child = child.cut(
                            max(0, from_ - pos),
                            min(text_length(child.text), to - pos),
                        )
                    else:
                        child = child.cut(
                            max(0, from_ - pos - 1),
                            min(child.content.size, to - pos - 1),
                        )
                result.append(child)
                size += child.node_size
            pos = end
            i += 1
        return Fragment(result, size)

    def cut_by_index(self, from_: int, to: int | None = None) -> "Fragment":
        if from_ == to:
            return Fragment.empty
        if from_ == 0 and to == len(self.content):
            return self
        return Fragment(self.content[from_:to])

    def replace_child(self, index: int, node: "Node") -> "Fragment":
        current = self.content[index]
        if current == node:
            return self
        copy = self.content.copy()
        size = self.size + node.node_size - current.node_size
        copy[index] = node
        return Fragment(copy, size)

    def add_to_start(self, node: "Node") -> "Fragment":
        return Fragment([node, *self.content], self.size + node.node_size)

    def add_to_end(self, node: "Node") -> "Fragment":
        return Fragment([*self.content, node], self.size + node.node_size)

    def eq(self, other: "Fragment") -> bool:
        if len(self.content) != len(other.content):
            return False
        return all(a.eq(b) for (a, b) in zip(self.content, other.content, strict=True))

    @property
    def first_child(self) -> Optional["Node"]:
        return self.content[0] if self.content else None

    @property
    def last_child(self) -> Optional["Node"]:
        return self.content[-1] if self.content else None

    @property
    def child_count(self) -> int:
        return len(self.content)

    def child(self, index: int) -> "Node":
        return self.content[index]

    def maybe_child(self, index: int) -> Optional["Node"]:
        if index < 0:
            # a negative index means "no such child" (it must not wrap around to the end)
            return None
        try:
            return self.content[index]
        except IndexError:
            return None

    def for_each(self, f: Callable[["Node", int, int], Any]) -> None:
        i = 0
        p = 0
        while i < len(self.content):
            child = self.content[i]
            f(child, p, i)
            p += child.node_size
            i += 1

    def find_diff_start(self, other: "Fragment", pos: int = 0) -> int | None:
        from .diff import find_diff_start

        return find_diff_start(self, other, pos)

    def find_diff_end(
        self,
        other: "Fragment",
        pos: int | None = None,
        other_pos: int | None = None,
    ) -> Optional["Diff"]:
        from .diff import find_diff_end

        if pos is None:
            pos = self.size
        if other_pos is None:
            other_pos = other.size
        return find_diff_end(self, other, pos, other_pos)

    def find_index(self, pos: int, round: int = -1) -> dict[str, int]:
        if pos == 0:
            return ret_index(0, pos)
        if pos == self.size:
            return ret_index(len(self.content), pos)
        if pos > self.size or pos < 0:
            msg = f"Position {pos} outside of fragment ({self})"
            raise ValueError(msg)
        i = 0
        cur_pos = 0
        while True:
            cur = self.child(i)
            end = cur_pos + cur.node_size
            if end >= pos:
                if end == pos or round > 0:
                    return ret_index(i + 1, end)
                return ret_index(i, cur_pos)
            i += 1
            cur_pos = end

    def to_json(self) -> JSONList | None:
        if self.content:
            return [item.to_json() for item in self.content]
        return None

    @classmethod
    def from_json(cls, schema: "Schema[Any, Any]", value: JSON) -> "Fragment":
        if not value:
            return cls.empty

        if isinstance(value, str):
            import json

            value = json.loads(value)

        if not isinstance(value, list):
            msg = "Invalid input for Fragment.from_json"
            raise ValueError(msg)

        return cls([schema.node_from_json(item) for item in value])

    @classmethod
    def from_array(cls, array: list["Node"]) -> "Fragment":
        if not array:
            return cls.empty
        joined: list[Node] | None = None
        size = 0
        for i in range(len(array)):
            node = array[i]
            size += node.node_size
            if i and pm_node.is_text(node) and array[i - 1].same_markup(node):
                if not joined:
                    joined = array[0:i]
                last = joined[-1]
                assert isinstance(last, pm_node.TextNode)
                joined[-1] = node.with_text(last.text + node.text)
            elif joined:
                joined.append(node)
        return cls(joined or array, size)

    @classmethod
    def from_(
        cls,
        nodes: Union["Fragment", "Node", Sequence["Node"], None],
    ) -> "Fragment":
        if not nodes:
            return cls.empty
        if isinstance(nodes, Fragment):
            return nodes
        if isinstance(nodes, Iterable):
            return cls.from_array(list(nodes))
        if hasattr(nodes, "attrs"):
            return cls([nodes], nodes.node_size)
        msg = f"cannot convert {nodes!r} to a fragment"
        raise ValueError(msg)

    def to_string_inner(self) -> str:
        return ", ".join([str(i) for i in self.content])

    def __str__(self) -> str:
        return f"<{self.to_string_inner()}>"

    def __repr__(self) -> str:
        return f"<{self.__class__.__name__} {self.__str__()}>"


Fragment.empty = Fragment([], 0)

from . import node as pm_node  # noqa: E402
