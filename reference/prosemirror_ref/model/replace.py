from typing import TYPE_CHECKING, Any, ClassVar, Optional, cast

from prosemirror_ref.utils import JSONDict

from .fragment import Fragment

if TYPE_CHECKING:
    from .node import Node, TextNode
    from .resolvedpos import ResolvedPos
    from .schema import Schema


class ReplaceError(ValueError):
    pass


def remove_range(content: Fragment, from_: int, to: int) -> Fragment:
    from_index_info = content.find_index(from_)
    index, offset = from_index_info["index"], from_index_info["offset"]
    child = content.maybe_child(index)
    to_index_info = content.find_index(to)
    index_to, offset_to = to_index_info["index"], to_index_info["offset"]
    if offset == from_ or cast("Node", child).is_text:
        if offset_to != to and not content.child(index_to).is_text:
            msg = "removing non-flat range"
            raise ValueError(msg)
        return content.cut(0, from_).append(content.cut(to))
    assert child
    if index != index_to:
        msg = "removing non-flat range"
        raise ValueError(msg)
    return content.replace_child(
        index,
        child.copy(remove_range(child.content, from_ - offset - 1, to - offset - 1)),
    )


def insert_into(
    content: Fragment,
    dist: int,
    insert: Fragment,
    parent: Optional["Node"],
    open_start: int = 0,
    open_end: int = 0,
) -> Fragment | None:
    a = content.find_index(dist)
    index, offset = a["index"], a["offset"]
    child = content.maybe_child(index)
    if offset == dist or cast("Node", child).is_text:
        # Validate the content that is actually built: when `dist` falls inside a
        # text child the inserted content lands between the two halves of that text,
        # and `append` may join adjacent text nodes.
        result = content.cut(0, dist).append(insert).append(content.cut(dist))
        if parent and not parent.type.valid_content(result):
            return None
        return result
    assert child
    # A child on an open side of the slice is only partly present; its content is
    # validated when the slice is placed (replace closes every joined node). A child
    # that is complete in the slice must itself be able to hold the inserted content.
    at_open_start = open_start > 0 and index == 0
    at_open_end = open_end > 0 and index == content.child_count - 1
    inner = insert_into(
        child.content,
        dist - offset - 1,
        insert,
        None if at_open_start or at_open_end else child,
        open_start - 1 if at_open_start else 0,
        open_end - 1 if at_open_end else 0,
    )
    if inner:
        return content.replace_child(index, child.copy(inner))
    return None


class Slice:
    empty: ClassVar["Slice"]

    def __init__(self, content: Fragment, open_start: int, open_end: int) -> None:
        self.content = content
        self.open_start = open_start
        self.open_end = open_end

    @property
    def size(self) -> int:
        return self.content.size - self.open_start - self.open_end

    def insert_at(self, pos: int, fragment: Fragment) -> Optional["Slice"]:
        if pos < 0 or pos > self.size:
            # outside the slice: beyond an open side the content would land next to
            # the open node and change which node the slice is open through
            return None
        content = insert_into(
            self.content,
            pos + self.open_start,
            fragment,
            None,
            self.open_start,
            self.open_end,
        )
        if content:
            return Slice(content, self.open_start, self.open_end)
        return None

    def remove_between(self, from_: int, to: int) -> "Slice":
        return Slice(
            remove_range(self.content, from_ + self.open_start, to + self.open_start),
            self.open_start,
            self.open_end,
        )

    def eq(self, other: "Slice") -> bool:
        return (
            self.content.eq(other.content)
            and self.open_start == other.open_start
            and self.open_end == other.open_end
        )

    def __str__(self) -> str:
        return f"{self.content}({self.open_start},{self.open_end})"

    def to_json(self) -> JSONDict | None:
        if not self.content.size:
            return None
        json: JSONDict = {"content": self.content.to_json()}
        if self.open_start > 0:
            json = {
                **json,
                "openStart": self.open_start,
            }
        if self.open_end > 0:
            json = {
                **json,
                "openEnd": self.open_end,
            }
        return json

    @classmethod
    def from_json(
        cls,
        schema: "Schema[Any, Any]",
        json_data: JSONDict | None,
    ) -> "Slice":
        if not json_data:
            return cls.empty
        open_start = json_data.get("openStart", 0) or 0
        open_end = json_data.get("openEnd", 0) or 0
        if not isinstance(open_start, int) or not isinstance(open_end, int):
            msg = "invalid input for Slice.from_json"
            raise ValueError(msg)
        return cls(
            Fragment.from_json(schema, json_data.get("content")),
            open_start,
            open_end,
        )

    @classmethod
    def max_open(cls, fragment: Fragment, open_isolating: bool = True) -> "Slice":
        open_start = 0
        open_end = 0
        n = fragment.first_child
        while (
            n
            and not n.is_leaf
            and (open_isolating or not n.type.spec.get("isolating"))
        ):
            open_start += 1
            n = n.first_child
        n = fragment.last_child
        while (
            n
            and not n.is_leaf
            and (open_isolating or not n.type.spec.get("isolating"))
        ):
            open_end += 1
            n = n.last_child
        return cls(fragment, open_start, open_end)


Slice.empty = Slice(Fragment.empty, 0, 0)


def replace(from_: "ResolvedPos", to: "ResolvedPos", slice: Slice) -> "Node":
    if from_.pos > to.pos:
        msg = "Replaced range ends before it starts"
        raise ReplaceError(msg)
    if slice.open_start > from_.depth:
        msg = "Inserted content deeper than insertion position"
        raise ReplaceError(msg)
    if from_.depth - slice.open_start != to.depth - slice.open_end:
        msg = "Inconsistent open depths"
        raise ReplaceError(msg)
    return replace_outer(from_, to, slice, 0)


def replace_outer(
    from_: "ResolvedPos",
    to: "ResolvedPos",
    slice: Slice,
    depth: int,
) -> "Node":
    index = from_.index(depth)
    node = from_.node(depth)
    if index == to.index(depth) and depth < from_.depth - slice.open_start:
        inner = replace_outer(from_, to, slice, depth + 1)
        return node.copy(node.content.replace_child(index, inner))
    elif not slice.content.size:
        return close(node, replace_two_way(from_, to, depth))
    elif (
        not slice.open_start
        and not slice.open_end
        and from_.depth == depth
        and to.depth == depth
    ):
        parent = from_.parent
        content = parent.content
        return close(
            parent,
            content.cut(0, from_.parent_offset)
            .append(slice.content)
            .append(content.cut(to.parent_offset)),
        )
    else:
        prepare = prepare_slice_for_replace(slice, from_)
        start, end = prepare["start"], prepare["end"]
        return close(node, replace_three_way(from_, start, end, to, depth))


def check_join(main: "Node", sub: "Node") -> None:
    if not sub.type.compatible_content(main.type):
        msg = f"Cannot join {sub.type.name} onto {main.type.name}"
        raise ReplaceError(msg)


def joinable(before: "ResolvedPos", after: "ResolvedPos", depth: int) -> "Node":
    node = before.node(depth)
    check_join(node, after.node(depth))
    return node


def add_node(child: "Node", target: list["Node"]) -> None:
    last = len(target) - 1
    if last >= 0 and pm_node.is_text(child) and child.same_markup(target[last]):
        target[last] = child.with_text(cast("TextNode", target[last]).text + child.text)
    else:
        target.append(child)


def add_range(
    start: Optional["ResolvedPos"],
    end: Optional["ResolvedPos"],
    depth: int,
    target: list["Node"],
) -> None:
    node = cast("ResolvedPos", end or start).node(depth)
    start_index = 0
    end_index = end.index(depth) if end else node.child_count
    if start:
        start_index = start.index(depth)
        if start.depth > depth:
            start_index += 1
        elif start.text_offset:
            add_node(cast("Node", start.node_after), target)
            start_index += 1
    i = start_index
    while i < end_index:
        add_node(node.child(i), target)
        i += 1
    if end and end.depth == depth and end.text_offset:
        add_node(cast("Node", end.node_before), target)


def close(node: "Node", content: Fragment) -> "Node":
    if not node.type.valid_content(content):
        msg = f"Invalid content for node {node.type.name}"
        raise ReplaceError(msg)
    return node.copy(content)


def replace_three_way(
    from_: "ResolvedPos",
    start: "ResolvedPos",
    end: "ResolvedPos",
    to: "ResolvedPos",
    depth: int,
) -> Fragment:
    open_start = joinable(from_, start, depth + 1) if from_.depth > depth else None
    open_end = joinable(end, to, depth + 1) if to.depth > depth else None
    content: list[Node] = []
    add_range(None, from_, depth, content)
    if open_start and open_end and start.index(depth) == end.index(depth):
        check_join(open_start, open_end)
        add_node(
            close(open_start, replace_three_way(from_, start, end, to, depth + 1)),
            content,
        )
    else:
        if open_start:
            add_node(
                close(open_start, replace_two_way(from_, start, depth + 1)),
                content,
            )
        add_range(start, end, depth, content)
        if open_end:
            add_node(close(open_end, replace_two_way(end, to, depth + 1)), content)
    add_range(to, None, depth, content)
    return Fragment(content)


def replace_two_way(from_: "ResolvedPos", to: "ResolvedPos", depth: int) -> Fragment:
    content: list[Node] = []
    add_range(None, from_, depth, content)
    if from_.depth > depth:
        type = joinable(from_, to, depth + 1)
        add_node(close(type, replace_two_way(from_, to, depth + 1)), content)
    add_range(to, None, depth, content)
    return Fragment(content)


def prepare_slice_for_replace(
    slice: Slice,
    along: "ResolvedPos",
) -> dict[str, "ResolvedPos"]:
    extra = along.depth - slice.open_start
    parent = along.node(extra)
    node = parent.copy(slice.content)
    for i in range(extra - 1, -1, -1):
        node = along.node(i).copy(Fragment.from_(node))
    return {
        "start": node.resolve_no_cache(slice.open_start + extra),
        "end": node.resolve_no_cache(node.content.size - slice.open_end - extra),
    }


from . import node as pm_node  # noqa: E402
