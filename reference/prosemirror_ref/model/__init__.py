from .content import ContentMatch
from .fragment import Fragment
from .from_dom import DOMParser
from .mark import Mark
from .node import Node
from .replace import ReplaceError, Slice
from .resolvedpos import NodeRange, ResolvedPos
from .schema import MarkType, NodeType, Schema
from .to_dom import DOMSerializer

__all__ = [
    "ContentMatch",
    "DOMParser",
    "DOMSerializer",
    "Fragment",
    "Mark",
    "MarkType",
    "Node",
    "NodeRange",
    "NodeType",
    "ReplaceError",
    "ResolvedPos",
    "Schema",
    "Slice",
]
