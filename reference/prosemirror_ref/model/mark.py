import copy
from typing import TYPE_CHECKING, Any, Final, Union, cast

from prosemirror_ref.utils import Attrs, JSONDict

if TYPE_CHECKING:
    from .schema import MarkType, Schema


class Mark:
    none: Final[list["Mark"]] = []

    def __init__(self, type: "MarkType", attrs: Attrs) -> None:
        self.type = type
        self.attrs = attrs

    def add_to_set(self, set: list["Mark"]) -> list["Mark"]:
        copy: list[Mark] | None = None
        placed = False
        for i in range(len(set)):
            other = set[i]
            if self.eq(other):
                return set
            if self.type.excludes(other.type):
                if copy is None:
                    copy = set[0:i]
            elif other.type.excludes(self.type):
                return set
            else:
                if not placed and other.type.rank > self.type.rank:
                    if copy is None:
                        copy = set[0:i]
                    copy.append(self)
                    placed = True
                if copy is not None:
                    copy.append(other)
        if copy is None:
            copy = set[:]
        if not placed:
            copy.append(self)
        return copy

    def remove_from_set(self, set: list["Mark"]) -> list["Mark"]:
        return [item for item in set if not item.eq(self)]

    def is_in_set(self, set: list["Mark"]) -> bool:
        return any(item.eq(self) for item in set)

    def eq(self, other: "Mark") -> bool:
        if self == other:
            return True
        return self.type.name == other.type.name and self.attrs == other.attrs

    def to_json(self) -> JSONDict:
        return {"type": self.type.name, "attrs": copy.deepcopy(self.attrs)}

    @classmethod
    def from_json(
        cls,
        schema: "Schema[Any, Any]",
        json_data: JSONDict,
    ) -> "Mark":
        if not json_data:
            msg = "Invalid input for Mark.fromJSON"
            raise ValueError(msg)
        name = json_data["type"]
        type = schema.marks.get(name)
        if not type:
            msg = f"There is no mark type {name} in this schema"
            raise ValueError(msg)
        return type.create(cast(JSONDict | None, json_data.get("attrs")))

    @classmethod
    def same_set(cls, a: list["Mark"], b: list["Mark"]) -> bool:
        if a == b:
            return True
        if len(a) != len(b):
            return False
        return all(item_a.eq(item_b) for (item_a, item_b) in zip(a, b, strict=True))

    @classmethod
    def set_from(cls, marks: Union[list["Mark"], "Mark", None]) -> list["Mark"]:
        if not marks:
            return cls.none
        if isinstance(marks, Mark):
            return [marks]
        copy = marks[:]
        return sorted(copy, key=lambda item: item.type.rank)
