from .schema_list import *  # noqa
