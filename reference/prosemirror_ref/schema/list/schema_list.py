from typing import cast

from prosemirror_ref.model.schema import Nodes, NodeSpec

OL_DOM = ["ol", 0]
UL_DOM = ["ul", 0]
LI_DOM = ["li", 0]


orderd_list = NodeSpec(
    attrs={"order": {"default": 1}},
    parseDOM=[{"tag": "ol"}],
    toDOM=lambda node: (
        OL_DOM
        if node.attrs.get("order") == 1
        else ["ol", {"start": node.attrs["order"]}, 0]
    ),
)

bullet_list = NodeSpec(parseDOM=[{"tag": "ul"}], toDOM=lambda _: UL_DOM)

list_item = NodeSpec(parseDOM=[{"tag": "li"}], defining=True, toDOM=lambda _: LI_DOM)


def add(obj: "NodeSpec", props: "NodeSpec") -> "NodeSpec":
    return {**obj, **props}


def add_list_nodes(
    nodes: dict["Nodes", "NodeSpec"],
    item_content: str,
    list_group: str,
) -> dict["Nodes", "NodeSpec"]:
    copy = nodes.copy()
    copy.update({
        cast(Nodes, "ordered_list"): add(
            orderd_list,
            NodeSpec(content="list_item+", group=list_group),
        ),
        cast(Nodes, "bullet_list"): add(
            bullet_list,
            NodeSpec(content="list_item+", group=list_group),
        ),
        cast(Nodes, "list_item"): add(list_item, NodeSpec(content=item_content)),
    })
    return copy
