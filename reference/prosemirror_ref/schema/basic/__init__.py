from .schema_basic import *  # noqa
