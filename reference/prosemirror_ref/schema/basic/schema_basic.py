from typing import Any

from prosemirror_ref.model import Schema
from prosemirror_ref.model.schema import MarkSpec, NodeSpec

p_dom = ["p", 0]
blockquote_dom = ["blockquote", 0]
hr_dom = ["hr"]
pre_dom = ["pre", ["code", 0]]
br_dom = ["br"]

nodes: dict[str, NodeSpec] = {
    "doc": {"content": "block+"},
    "paragraph": {
        "content": "inline*",
        "group": "block",
        "parseDOM": [{"tag": "p"}],
        "toDOM": lambda _: p_dom,
    },
    "blockquote": {
        "content": "block+",
        "group": "block",
        "defining": True,
        "parseDOM": [{"tag": "blockquote"}],
        "toDOM": lambda _: blockquote_dom,
    },
    "horizontal_rule": {
        "group": "block",
        "parseDOM": [{"tag": "hr"}],
        "toDOM": lambda _: hr_dom,
    },
    "heading": {
        "attrs": {"level": {"default": 1}},
        "content": "inline*",
        "group": "block",
        "defining": True,
        "parseDOM": [
            {"tag": "h1", "attrs": {"level": 1}},
            {"tag": "h2", "attrs": {"level": 2}},
            {"tag": "h3", "attrs": {"level": 3}},
            {"tag": "h4", "attrs": {"level": 4}},
            {"tag": "h5", "attrs": {"level": 5}},
            {"tag": "h6", "attrs": {"level": 6}},
        ],
        "toDOM": lambda node: [f"h{node.attrs['level']}", 0],
    },
    "code_block": {
        "content": "text*",
        "marks": "",
        "group": "block",
        "code": True,
        "defining": True,
        "parseDOM": [{"tag": "pre", "preserveWhitespace": "full"}],
        "toDOM": lambda _: pre_dom,
    },
    "text": {"group": "inline"},
    "image": {
        "inline": True,
        "attrs": {"src": {}, "alt": {"default": None}, "title": {"default": None}},
        "group": "inline",
        "draggable": True,
        "parseDOM": [
            {
                "tag": "img[src]",
                "getAttrs": lambda dom_: {
                    "src": dom_.get("src"),
                    "title": dom_.get("title"),
                },
            },
        ],
        "toDOM": lambda node: [
            "img",
            {
                "src": node.attrs["src"],
                "alt": node.attrs["alt"],
                "title": node.attrs["title"],
            },
        ],
    },
    "hard_break": {
        "inline": True,
        "group": "inline",
        "selectable": False,
        "parseDOM": [{"tag": "br"}],
        "toDOM": lambda _: br_dom,
    },
}

em_dom = ["em", 0]
strong_dom = ["strong", 0]
code_dom = ["code", 0]

marks: dict[str, MarkSpec] = {
    "link": {
        "attrs": {"href": {}, "title": {"default": None}},
        "inclusive": False,
        "parseDOM": [{"tag": "a[href]", "getAttrs": lambda d: {"href": d.get("href")}}],
        "toDOM": lambda node, _: [
            "a",
            {"href": node.attrs["href"], "title": node.attrs["title"]},
            0,
        ],
    },
    "em": {
        "parseDOM": [{"tag": "i"}, {"tag": "em"}, {"style": "font-style=italic"}],
        "toDOM": lambda _, __: em_dom,
    },
    "strong": {
        "parseDOM": [{"tag": "strong"}, {"tag": "b"}, {"style": "font-weight"}],
        "toDOM": lambda _, __: strong_dom,
    },
    "code": {"parseDOM": [{"tag": "code"}], "toDOM": lambda _, __: code_dom},
}


schema: Schema[Any, Any] = Schema({"nodes": nodes, "marks": marks})
