from collections.abc import Mapping, Sequence
from typing import TypeAlias

JSONDict: TypeAlias = Mapping[str, "JSON"]
JSONList: TypeAlias = Sequence["JSON"]

JSON: TypeAlias = JSONDict | JSONList | str | int | float | bool | None

Attrs: TypeAlias = JSONDict


def text_length(text: str) -> int:
    return len(text.encode("utf-16-le")) // 2
