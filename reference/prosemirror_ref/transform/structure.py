from dataclasses import dataclass
from typing import cast

from prosemirror_ref.model import ContentMatch, Node, NodeRange, NodeType, Slice
from prosemirror_ref.utils import Attrs


def can_cut(node: Node, start: int, end: int) -> bool:
    if start == 0 or node.can_replace(start, node.child_count):
        return (end == node.child_count) or node.can_replace(0, end)
    return False


def lift_target(range_: NodeRange) -> int | None:
    parent = range_.parent
    content = parent.content.cut_by_index(range_.start_index, range_.end_index)
    depth = range_.depth
    while True:
        node = range_.from_.node(depth)
        index = range_.from_.index(depth)
        end_index = range_.to.index_after(depth)
        if depth < range_.depth and node.can_replace(index, end_index, content):
            return depth
        if (
            depth == 0
            or node.type.spec.get("isolating")
            or not can_cut(node, index, end_index)
        ):
            break
        depth -= 1

    return None


@dataclass
class NodeTypeWithAttrs:
    type: NodeType
    attrs: Attrs | None = None


def find_wrapping(
    range_: NodeRange,
    node_type: NodeType,
    attrs: Attrs | None = None,
    inner_range: NodeRange | None = None,
) -> list[NodeTypeWithAttrs] | None:
    if inner_range is None:
        inner_range = range_

    around = find_wrapping_outside(range_, node_type)
    inner = None

    if around is not None:
        inner = find_wrapping_inside(inner_range, node_type)
    else:
        return None

    if inner is None:
        return None

    return (
        [with_attrs(item) for item in around]
        + [NodeTypeWithAttrs(type=node_type, attrs=attrs)]
        + [with_attrs(item) for item in inner]
    )


def with_attrs(type: NodeType) -> NodeTypeWithAttrs:
    return NodeTypeWithAttrs(type=type, attrs=None)


def find_wrapping_outside(range_: NodeRange, type: NodeType) -> list[NodeType] | None:
    parent = range_.parent
    start_index = range_.start_index
    end_index = range_.end_index
    around = parent.content_match_at(start_index).find_wrapping(type)
    if around is None:
        return None
    outer = around[0] if len(around) and around[0] else type
    return around if parent.can_replace_with(start_index, end_index, outer) else None


def find_wrapping_inside(range_: NodeRange, type: NodeType) -> list[NodeType] | None:
    parent = range_.parent
    start_index = range_.start_index
    end_index = range_.end_index
    inner = parent.child(start_index)
    inside = type.content_match.find_wrapping(inner.type)

    if inside is None:
        return None

    last_type = inside[-1] if len(inside) else type
    inner_match: ContentMatch | None = last_type.content_match
    i = start_index

    while inner_match and i < end_index:
        inner_match = inner_match.match_type(parent.child(i).type)
        i += 1

    if not inner_match or not inner_match.valid_end:
        return None

    return inside


def can_change_type(doc: Node, pos: int, type: NodeType) -> bool:
    pos_ = doc.resolve(pos)
    index = pos_.index()
    return pos_.parent.can_replace_with(index, index + 1, type)


def can_split(
    doc: Node,
    pos: int,
    depth: int | None = None,
    types_after: list[NodeTypeWithAttrs] | None = None,
) -> bool:
    if depth is None:
        depth = 1
    pos_ = doc.resolve(pos)
    base = pos_.depth - depth
    inner_type: NodeTypeWithAttrs = cast(
        NodeTypeWithAttrs,
        (types_after and types_after[-1]) or pos_.parent,
    )

    if (
        base < 0
        or pos_.parent.type.spec.get("isolating")
        or not pos_.parent.can_replace(pos_.index(), pos_.parent.child_count)
        or not inner_type.type.valid_content(
            pos_.parent.content.cut_by_index(pos_.index(), pos_.parent.child_count),
        )
    ):
        return False

    d = pos_.depth - 1
    i = depth - 2

    while d > base:
        node = pos_.node(d)
        index = pos_.index(d)
        if node.type.spec.get("isolating"):
            return False
        rest = node.content.cut_by_index(index, node.child_count)

        if types_after and len(types_after) > i + 1:
            override_child = types_after[i + 1]
            rest = rest.replace_child(
                0,
                override_child.type.create(override_child.attrs),
            )
        after: NodeTypeWithAttrs = cast(
            NodeTypeWithAttrs,
            (types_after and len(types_after) > i and types_after[i]) or node,
        )
        if not node.can_replace(
            index + 1,
            node.child_count,
        ) or not after.type.valid_content(rest):
            return False
        d -= 1
        i -= 1
    index = pos_.index_after(base)
    base_type = types_after[0] if types_after else None
    return pos_.node(base).can_replace_with(
        index,
        index,
        base_type.type if base_type else pos_.node(base + 1).type,
    )


def can_join(doc: Node, pos: int) -> bool | None:
    pos_ = doc.resolve(pos)
    index = pos_.index()
    return (
        pos_.parent.can_replace(index, index + 1)
        if joinable(pos_.node_before, pos_.node_after)
        else None
    )


def joinable(a: Node | None, b: Node | None) -> bool:
    if a and b and not a.is_leaf:
        return a.can_append(b)
    return False


def join_point(doc: Node, pos: int, dir: int = -1) -> int | None:
    pos_ = doc.resolve(pos)
    for d in range(pos_.depth, -1, -1):
        before = None
        after = None
        index = pos_.index(d)
        if d == pos_.depth:
            before = pos_.node_before
            after = pos_.node_after
        elif dir > 0:
            before = pos_.node(d + 1)
            index += 1
            after = pos_.node(d).maybe_child(index)
        else:
            before = pos_.node(d).maybe_child(index - 1)
            after = pos_.node(d + 1)
        if (
            before
            and not before.is_textblock
            and joinable(before, after)
            and pos_.node(d).can_replace(index, index + 1)
        ):
            return pos
        if d == 0:
            break
        pos = pos_.before(d) if dir < 0 else pos_.after(d)

    return None


def insert_point(doc: Node, pos: int, node_type: NodeType) -> int | None:
    pos_ = doc.resolve(pos)
    if pos_.parent.can_replace_with(pos_.index(), pos_.index(), node_type):
        return pos
    if pos_.parent_offset == 0:
        for d in range(pos_.depth - 1, -1, -1):
            index = pos_.index(d)
            if pos_.node(d).can_replace_with(index, index, node_type):
                return pos_.before(d + 1)
            if index > 0:
                return None
    if pos_.parent_offset == pos_.parent.content.size:
        for d in range(pos_.depth - 1, -1, -1):
            index = pos_.index_after(d)
            if pos_.node(d).can_replace_with(index, index, node_type):
                return pos_.after(d + 1)
            if index < pos_.node(d).child_count:
                return None

    return None


def drop_point(doc: Node, pos: int, slice: Slice) -> int | None:
    pos_ = doc.resolve(pos)
    if not slice.content.size:
        return pos
    content = slice.content
    for _i in range(slice.open_start):
        assert content.first_child is not None
        content = content.first_child.content
    pass_ = 1
    while pass_ <= (2 if slice.open_start == 0 and slice.size else 1):
        for d in range(pos_.depth, -1, -1):
            if d == pos_.depth:
                bias = 0
            elif pos_.pos <= (pos_.start(d + 1) + pos_.end(d + 1)) / 2:
                bias = -1
            else:
                bias = 1
            insert_pos = pos_.index(d) + (1 if bias > 0 else 0)
            parent = pos_.node(d)
            fits = False
            if pass_ == 1:
                fits = parent.can_replace(insert_pos, insert_pos, content)
            else:
                assert content.first_child is not None
                wrapping = parent.content_match_at(insert_pos).find_wrapping(
                    content.first_child.type,
                )
                fits = bool(wrapping) and parent.can_replace_with(
                    insert_pos,
                    insert_pos,
                    wrapping[0],
                )
            if fits:
                if bias == 0:
                    return pos_.pos
                elif bias < 0:
                    return pos_.before(d + 1)
                else:
                    return pos_.after(d + 1)
        pass_ += 1
    return None
