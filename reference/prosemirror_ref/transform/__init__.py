from .attr_step import AttrStep
from .map import Mapping, MapResult, StepMap
from .mark_step import AddMarkStep, AddNodeMarkStep, RemoveMarkStep, RemoveNodeMarkStep
from .replace import (
    close_fragment,
    covered_depths,
    fits_trivially,
    replace_step,
)
from .replace_step import ReplaceAroundStep, ReplaceStep
from .step import Step, StepResult
from .structure import (
    can_join,
    can_split,
    drop_point,
    find_wrapping,
    insert_point,
    join_point,
    lift_target,
)
from .transform import Transform, TransformError

__all__ = [
    "AddMarkStep",
    "AddNodeMarkStep",
    "AttrStep",
    "MapResult",
    "Mapping",
    "RemoveMarkStep",
    "RemoveNodeMarkStep",
    "ReplaceAroundStep",
    "ReplaceStep",
    "Step",
    "StepMap",
    "StepResult",
    "Transform",
    "TransformError",
    "can_join",
    "can_split",
    "close_fragment",
    "covered_depths",
    "drop_point",
    "find_wrapping",
    "fits_trivially",
    "insert_point",
    "join_point",
    "lift_target",
    "replace_step",
]
