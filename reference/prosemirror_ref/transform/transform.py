import re
from typing import Optional, TypedDict

from prosemirror_ref.model import (
    ContentMatch,
    Fragment,
    Mark,
    MarkType,
    Node,
    NodeRange,
    NodeType,
    Slice,
)
from prosemirror_ref.model.node import TextNode
from prosemirror_ref.transform import (
    AddMarkStep,
    AddNodeMarkStep,
    AttrStep,
    Mapping,
    RemoveMarkStep,
    RemoveNodeMarkStep,
    ReplaceAroundStep,
    ReplaceStep,
    Step,
    StepResult,
    close_fragment,
    covered_depths,
    fits_trivially,
    structure,
)
from prosemirror_ref.transform.replace import replace_step
from prosemirror_ref.utils import JSON, Attrs, text_length

from .doc_attr_step import DocAttrStep


def defines_content(type: NodeType | MarkType) -> bool | None:
    if isinstance(type, NodeType):
        return type.spec.get("defining") or type.spec.get("definingForContent")
    return False


class TransformError(ValueError):
    pass


class Transform:
    # functions from .structure exposed by Transform
    join_point = structure.join_point
    can_join = structure.can_join
    can_split = structure.can_split
    insert_point = structure.insert_point
    drop_point = structure.drop_point
    lift_target = structure.lift_target
    find_wrapping = structure.find_wrapping
    replace_step = replace_step

    def __init__(self, doc: Node) -> None:
        self.doc = doc
        self.steps: list[Step] = []
        self.docs: list[Node] = []
        self.mapping = Mapping()

    @property
    def before(self) -> Node:
        return self.docs[0] if self.docs else self.doc

    def step(self, object: Step) -> "Transform":
        result = self.maybe_step(object)
        if result.failed:
            raise TransformError(result.failed)
        return self

    def maybe_step(self, step: Step) -> StepResult:
        result = step.apply(self.doc)
        if not result.failed and result.doc:
            self.add_step(step, result.doc)
        return result

    def doc_changed(self) -> bool:
        return bool(len(self.steps))

    def add_step(self, step: Step, doc: Node) -> None:
        self.docs.append(self.doc)
        self.steps.append(step)
        self.mapping.append_map(step.get_map())
        self.doc = doc

    # mark.js
    def add_mark(self, from_: int, to: int, mark: Mark) -> "Transform":
        removed = []
        added = []
        removing: RemoveMarkStep | None = None
        adding: AddMarkStep | None = None

        def iteratee(node: Node, pos: int, parent: Node | None, i: int) -> None:
            nonlocal removing
            nonlocal adding
            if not node.is_inline:
                return
            marks = node.marks
            if (
                not mark.is_in_set(marks)
                and parent
                and parent.type.allows_mark_type(mark.type)
            ):
                start = max(pos, from_)
                end = min(pos + node.node_size, to)
                new_set = mark.add_to_set(marks)
                for i in range(len(marks)):
                    if not marks[i].is_in_set(new_set):
                        if (
                            removing
                            and removing.to == start
                            and removing.mark.eq(marks[i])
                        ):
                            removing.to = end
                        else:
                            removing = RemoveMarkStep(start, end, marks[i])
                            removed.append(removing)
                if adding and adding.to == start:
                    adding.to = end
                else:
                    adding = AddMarkStep(start, end, mark)
                    added.append(adding)

        self.doc.nodes_between(from_, to, iteratee)
        item: Step
        for item in removed:
            self.step(item)
        for item in added:
            self.step(item)
        return self

    def remove_mark(
        self,
        from_: int,
        to: int,
        mark: Mark | MarkType | None = None,
    ) -> "Transform":
        class MatchedTypedDict(TypedDict):
            style: Mark
            from_: int
            to: int
            step: int

        matched: list[MatchedTypedDict] = []
        step = 0

        def iteratee(node: Node, pos: int, parent: Node | None, i: int) -> bool | None:
            nonlocal step
            if not node.is_inline:
                return None
            step += 1
            to_remove = None
            if isinstance(mark, MarkType):
                set_ = node.marks
                while True:
                    found_mark = mark.is_in_set(set_)
                    if not found_mark:
                        break
                    if to_remove is None:
                        to_remove = []
                    to_remove.append(found_mark)
                    set_ = found_mark.remove_from_set(set_)
            elif mark:
                if mark.is_in_set(node.marks):
                    to_remove = [mark]
            else:
                to_remove = node.marks
            if to_remove:
                end = min(pos + node.node_size, to)
                for style in to_remove:
                    found = None
                    for m in matched:
                        if m["step"] == step - 1 and style.eq(m["style"]):
                            found = m
                    if found:
                        found["to"] = end
                        found["step"] = step
                    else:
                        matched.append({
                            "style": style,
                            "from_": max(pos, from_),
                            "to": end,
                            "step": step,
                        })
            return None

        self.doc.nodes_between(from_, to, iteratee)
        for item in matched:
            self.step(RemoveMarkStep(item["from_"], item["to"], item["style"]))
        return self

    def clear_incompatible(
        self,
        pos: int,
        parent_type: NodeType,
        match: ContentMatch | None = None,
    ) -> "Transform":
        if match is None:
            match = parent_type.content_match
        node = self.doc.node_at(pos)
        assert match is not None
        assert node is not None
        repl_steps = []
        cur = pos + 1
        for i in range(node.child_count):
            child = node.child(i)
            end = cur + child.node_size
            assert match is not None
            allowed = match.match_type(child.type)
            if not allowed:
                repl_steps.append(ReplaceStep(cur, end, Slice.empty))
            else:
                match = allowed
                for j in range(len(child.marks)):
                    if not parent_type.allows_mark_type(child.marks[j].type):
                        self.step(RemoveMarkStep(cur, end, child.marks[j]))
                if child.is_text and not parent_type.spec.get("code"):
                    assert isinstance(child, TextNode)
                    newline = re.compile(r"\r?\n|\r")
                    slice = None
                    m = newline.search(child.text)
                    while m:
                        if slice is None:
                            slice = Slice(
                                Fragment.from_(
                                    parent_type.schema.text(
                                        " ",
                                        parent_type.allowed_marks(child.marks),
                                    ),
                                ),
                                0,
                                0,
                            )
                        # regex offsets count code points, positions count UTF-16 units
                        repl_steps.append(
                            ReplaceStep(
                                cur + text_length(child.text[: m.start()]),
                                cur + text_length(child.text[: m.end()]),
                                slice,
                            ),
                        )
                        m = newline.search(child.text, m.end())
            cur = end
        if not match.valid_end:
            fill = match.fill_before(Fragment.empty, True)
            assert fill is not None
            self.replace(cur, cur, Slice(fill, 0, 0))
        for item in reversed(repl_steps):
            self.step(item)
        return self

    # replace.js
    def replace(
        self,
        from_: int,
        to: int | None = None,
        slice: Slice | None = None,
    ) -> "Transform":
        if to is None:
            to = from_
        if slice is None:
            slice = Slice.empty
        step = replace_step(self.doc, from_, to, slice)
        if step:
            self.step(step)
        return self

    def replace_with(
        self,
        from_: int,
        to: int,
        content: Fragment | Node | list[Node],
    ) -> "Transform":
        return self.replace(from_, to, Slice(Fragment.from_(content), 0, 0))

    def delete(self, from_: int, to: int) -> "Transform":
        return self.replace(from_, to, Slice.empty)

    def insert(
        self,
        pos: int,
        content: Fragment | Node | list[Node],
    ) -> "Transform":
        return self.replace_with(pos, pos, content)

    def replace_range(self, from_: int, to: int, slice: Slice) -> "Transform":
        if not slice.size:
            return self.delete_range(from_, to)
        from__ = self.doc.resolve(from_)
        to_ = self.doc.resolve(to)
        if fits_trivially(from__, to_, slice):
            return self.step(ReplaceStep(from_, to, slice))
        target_depths = covered_depths(from__, self.doc.resolve(to))
        if target_depths and target_depths[-1] == 0:
            target_depths.pop()
        preferred_target = -(from__.depth + 1)
        target_depths.insert(0, preferred_target)
        d = from__.depth
        pos = from__.pos - 1
        while d > 0:
            spec = from__.node(d).type.spec
            if (
                spec.get("defining")
                or spec.get("definingAsContext")
                or spec.get("isolating")
            ):
                break
            if d in target_depths:
                preferred_target = d
            elif from__.before(d) == pos:
                target_depths.insert(1, -d)
            d -= 1
            pos -= 1
        preferred_target_index = target_depths.index(preferred_target)
        left_nodes = []
        preferred_depth = slice.open_start
        content = slice.content
        i = 0
        while True:
            node = content.first_child
            left_nodes.append(node)

            if i == slice.open_start or node is None:
                break

            content = node.content
            i += 1

        d = preferred_depth - 1
        while d >= 0:
            left_node = left_nodes[d]
            assert left_node is not None
            def_ = defines_content(left_node.type)
            if def_ and not left_node.same_markup(
                from__.node(abs(preferred_target) - 1),
            ):
                preferred_depth = d
            elif def_ or not left_node.type.is_textblock:
                break
            d -= 1

        for j in range(slice.open_start, -1, -1):
            open_depth = (j + preferred_depth + 1) % (slice.open_start + 1)
            insert = left_nodes[open_depth] if open_depth < len(left_nodes) else None
            if insert is None:
                continue
            for i in range(len(target_depths)):
                target_depth = target_depths[
                    (i + preferred_target_index) % len(target_depths)
                ]
                expand = True
                if target_depth < 0:
                    expand = False
                    target_depth = -target_depth
                parent = from__.node(target_depth - 1)
                index = from__.index(target_depth - 1)
                if parent.can_replace_with(index, index, insert.type, insert.marks):
                    return self.replace(
                        from__.before(target_depth),
                        to_.after(target_depth) if expand else to,
                        Slice(
                            close_fragment(
                                slice.content,
                                0,
                                slice.open_start,
                                open_depth,
                                None,
                                slice.open_end,
                            ),
                            open_depth,
                            slice.open_end,
                        ),
                    )

        start_steps = len(self.steps)
        for i in range(len(target_depths) - 1, -1, -1):
            self.replace(from_, to, slice)
            if len(self.steps) > start_steps:
                break
            depth = target_depths[i]
            if depth < 0:
                continue
            from_ = from__.before(depth)
            to = to_.after(depth)
        return self

    def replace_range_with(self, from_: int, to: int, node: Node) -> "Transform":
        if (
            not node.is_inline
            and from_ == to
            and self.doc.resolve(from_).parent.content.size
        ):
            point = structure.insert_point(self.doc, from_, node.type)
            if point is not None:
                from_ = to = point

        return self.replace_range(from_, to, Slice(Fragment.from_(node), 0, 0))

    def delete_range(self, from_: int, to: int) -> "Transform":
        from__ = self.doc.resolve(from_)
        to_ = self.doc.resolve(to)
        covered = covered_depths(from__, to_)

        for i in range(len(covered)):
            depth = covered[i]
            last = len(covered) - 1 == i

            if (last and depth == 0) or from__.node(depth).type.content_match.valid_end:
                return self.delete(from__.start(depth), to_.end(depth))

            if depth > 0 and (
                last
                or from__.node(depth - 1).can_replace(
                    from__.index(depth - 1),
                    to_.index_after(depth - 1),
                )
            ):
                return self.delete(from__.before(depth), to_.after(depth))

        d = 1

        while d <= from__.depth and d <= to_.depth:
            if (
                from_ - from__.start(d) == from__.depth - d
                and to > from__.end(d)
                and to_.end(d) - to != to_.depth - d
            ):
                return self.delete(from__.before(d), to)
            d += 1

        return self.delete(from_, to)

    # structure.js
    def lift(self, range_: NodeRange, target: int) -> "Transform":
        from__ = range_.from_
        to_ = range_.to
        depth = range_.depth

        gap_start = from__.before(depth + 1)
        gap_end = to_.after(depth + 1)
        start = gap_start
        end = gap_end

        before = Fragment.empty
        open_start = 0
        d = depth
        splitting = False
        while d > target:
            if splitting or from__.index(d) > 0:
                splitting = True
                before = Fragment.from_(from__.node(d).copy(before))
                open_start += 1
            else:
                start -= 1
            d -= 1
        after = Fragment.empty
        open_end = 0
        d = depth
        splitting = False
        while d > target:
            if splitting or to_.after(d + 1) < to_.end(d):
                splitting = True
                after = Fragment.from_(to_.node(d).copy(after))
                open_end += 1
            else:
                end += 1
            d -= 1
        return self.step(
            ReplaceAroundStep(
                start,
                end,
                gap_start,
                gap_end,
                Slice(before.append(after), open_start, open_end),
                before.size - open_start,
                True,
            ),
        )

    def wrap(
        self,
        range_: NodeRange,
        wrappers: list[structure.NodeTypeWithAttrs],
    ) -> "Transform":
        content = Fragment.empty
        i = len(wrappers) - 1
        while i >= 0:
            if content.size:
                match = wrappers[i].type.content_match.match_fragment(content)
                if not match or not match.valid_end:
                    msg = (
                        "Wrapper type given to Transform.wrap does not form valid "
                        "content of its parent wrapper"
                    )
                    raise TransformError(msg)
            content = Fragment.from_(
                wrappers[i].type.create(wrappers[i].attrs, content),
            )
            i -= 1
        start = range_.start
        end = range_.end
        return self.step(
            ReplaceAroundStep(
                start,
                end,
                start,
                end,
                Slice(content, 0, 0),
                len(wrappers),
                True,
            ),
        )

    def set_block_type(
        self,
        from_: int,
        to: int | None,
        type: NodeType,
        attrs: Attrs | None,
    ) -> "Transform":
        if to is None:
            to = from_
        if not type.is_textblock:
            msg = "Type given to set_block_type should be a textblock"
            raise ValueError(msg)
        map_from = len(self.steps)

        def iteratee(
            node: "Node",
            pos: int,
            parent: Optional["Node"],
            i: int,
        ) -> bool | None:
            if (
                node.is_textblock
                and not node.has_markup(type, attrs)
                and structure.can_change_type(
                    self.doc,
                    self.mapping.slice(map_from).map(pos),
                    type,
                )
            ):
                self.clear_incompatible(self.mapping.slice(map_from).map(pos, 1), type)
                mapping = self.mapping.slice(map_from)
                start_m = mapping.map(pos, 1)
                end_m = mapping.map(pos + node.node_size, 1)
                self.step(
                    ReplaceAroundStep(
                        start_m,
                        end_m,
                        start_m + 1,
                        end_m - 1,
                        Slice(
                            Fragment.from_(type.create(attrs, None, node.marks)),
                            0,
                            0,
                        ),
                        1,
                        True,
                    ),
                )
                return False
            return None

        self.doc.nodes_between(from_, to, iteratee)
        return self

    def set_node_markup(
        self,
        pos: int,
        type: NodeType | None,
        attrs: Attrs | None,
        marks: list[Mark] | None = None,
    ) -> "Transform":
        node = self.doc.node_at(pos)
        if not node:
            msg = "No node at given position"
            raise ValueError(msg)
        if not type:
            type = node.type
        new_node = type.create(attrs, None, marks or node.marks)
        if node.is_leaf:
            return self.replace_with(pos, pos + node.node_size, new_node)
        if not type.valid_content(node.content):
            msg = f"Invalid content for node type {type.name}"
            raise ValueError(msg)
        return self.step(
            ReplaceAroundStep(
                pos,
                pos + node.node_size,
                pos + 1,
                pos + node.node_size - 1,
                Slice(Fragment.from_(new_node), 0, 0),
                1,
                True,
            ),
        )

    def set_node_attribute(self, pos: int, attr: str, value: JSON) -> "Transform":
        return self.step(AttrStep(pos, attr, value))

    def set_doc_attribute(self, attr: str, value: JSON) -> "Transform":
        return self.step(DocAttrStep(attr, value))

    def add_node_mark(self, pos: int, mark: Mark) -> "Transform":
        return self.step(AddNodeMarkStep(pos, mark))

    def remove_node_mark(self, pos: int, mark: Mark | MarkType) -> "Transform":
        if isinstance(mark, MarkType):
            node = self.doc.node_at(pos)

            if not node:
                msg = f"No node at position {pos}"
                raise ValueError(msg)

            mark_in_set = mark.is_in_set(node.marks)

            if not mark_in_set:
                return self

            mark = mark_in_set
        return self.step(RemoveNodeMarkStep(pos, mark))

    def split(
        self,
        pos: int,
        depth: int | None = None,
        types_after: list[structure.NodeTypeWithAttrs] | None = None,
    ) -> "Transform":
        if depth is None:
            depth = 1
        pos_ = self.doc.resolve(pos)
        before = Fragment.empty
        after = Fragment.empty
        d = pos_.depth
        e = pos_.depth - depth
        i = depth - 1
        while d > e:
            before = Fragment.from_(pos_.node(d).copy(before))
            type_after = None
            if types_after and len(types_after) > i:
                type_after = types_after[i]
            after = Fragment.from_(
                type_after.type.create(type_after.attrs, after)
                if type_after
                else pos_.node(d).copy(after),
            )
            d -= 1
            i -= 1
        return self.step(
            ReplaceStep(pos, pos, Slice(before.append(after), depth, depth), True),
        )

    def join(self, pos: int, depth: int = 1) -> "Transform":
        step = ReplaceStep(pos - depth, pos + depth, Slice.empty, True)
        return self.step(step)
