from typing import cast

from prosemirror_ref.model import (
    ContentMatch,
    Fragment,
    Node,
    NodeType,
    ResolvedPos,
    Slice,
)
from prosemirror_ref.transform.replace_step import ReplaceAroundStep, ReplaceStep
from prosemirror_ref.transform.step import Step
from prosemirror_ref.utils import Attrs


def replace_step(
    doc: Node,
    from_: int,
    to: int | None = None,
    slice: Slice | None = None,
) -> Step | None:
    if to is None:
        to = from_
    if slice is None:
        slice = Slice.empty
    if from_ == to and not slice.size:
        return None

    from__ = doc.resolve(from_)
    to_ = doc.resolve(to)
    if fits_trivially(from__, to_, slice):
        return ReplaceStep(from_, to, slice)
    return Fitter(from__, to_, slice).fit()


def fits_trivially(
    from__: ResolvedPos,
    to_: ResolvedPos,
    slice: Slice,
) -> bool:
    if not slice.open_start and not slice.open_end and from__.start() == to_.start():
        return from__.parent.can_replace(from__.index(), to_.index(), slice.content)
    return False


class _FrontierItem:
    __slots__ = ("match", "type")

    def __init__(self, type_: NodeType, match: ContentMatch) -> None:
        self.type = type_
        self.match = match


class _Fittable:
    __slots__ = ("frontier_depth", "inject", "parent", "slice_depth", "wrap")

    def __init__(
        self,
        slice_depth: int,
        frontier_depth: int,
        parent: Node | None,
        inject: Fragment | None = None,
        wrap: list[NodeType] | None = None,
    ) -> None:
        self.slice_depth = slice_depth
        self.frontier_depth = frontier_depth
        self.parent = parent
        self.inject = inject
        self.wrap = wrap


class _CloseLevel:
    __slots__ = ("depth", "fit", "move")

    def __init__(
        self,
        depth: int,
        fit: Fragment,
        move: ResolvedPos,
    ) -> None:
        self.depth = depth
        self.fit = fit
        self.move = move


class Fitter:
    __slots__ = ("from__", "frontier", "placed", "to_", "unplaced")

    def __init__(self, from__: ResolvedPos, to_: ResolvedPos, slice: Slice) -> None:
        self.to_ = to_
        self.from__ = from__
        self.unplaced = slice

        self.frontier: list[_FrontierItem] = []
        for i in range(from__.depth + 1):
            node = from__.node(i)
            self.frontier.append(
                _FrontierItem(node.type, node.content_match_at(from__.index_after(i))),
            )

        self.placed: Fragment = Fragment.empty
        for i in range(from__.depth, 0, -1):
            self.placed = Fragment.from_(from__.node(i).copy(self.placed))

    @property
    def depth(self) -> int:
        return len(self.frontier) - 1

    def fit(self) -> Step | None:
        while self.unplaced.size:
            fit = self.find_fittable()
            if fit:
                self.place_nodes(fit)
            elif not self.open_more():
                self.drop_node()

        move_inline = self.must_move_inline()
        placed_size = self.placed.size - self.depth - self.from__.depth
        from__ = self.from__
        to_ = self.close(
            self.to_ if move_inline < 0 else from__.doc.resolve(move_inline),
        )
        if not to_:
            return None

        content = self.placed
        open_start = from__.depth
        open_end = to_.depth
        while open_start and open_end and content.child_count == 1:
            first_child = content.first_child
            assert first_child
            content = first_child.content
            open_start -= 1
            open_end -= 1

        slice = Slice(content, open_start, open_end)
        if move_inline > -1:
            return ReplaceAroundStep(
                from__.pos,
                move_inline,
                self.to_.pos,
                self.to_.end(),
                slice,
                placed_size,
            )
        if slice.size or from__.pos != self.to_.pos:
            return ReplaceStep(from__.pos, to_.pos, slice)
        return None

    def find_fittable(self) -> _Fittable | None:
        start_depth = self.unplaced.open_start
        cur = self.unplaced.content
        open_end = self.unplaced.open_end
        for d in range(start_depth):
            node = cast("Node", cur.first_child)
            if cur.child_count > 1:
                open_end = 0
            if node.type.spec.get("isolating") and open_end <= d:
                start_depth = d
                break
            cur = node.content

        for pass_ in [1, 2]:
            for slice_depth in range(
                start_depth if pass_ == 1 else self.unplaced.open_start,
                -1,
                -1,
            ):
                if slice_depth:
                    parent = content_at(
                        self.unplaced.content,
                        slice_depth - 1,
                    ).first_child
                    assert parent
                    fragment = parent.content
                else:
                    parent = None
                    fragment = self.unplaced.content
                first = fragment.first_child
                for frontier_depth in range(self.depth, -1, -1):
                    type_ = self.frontier[frontier_depth].type
                    match = self.frontier[frontier_depth].match

                    inject = None
                    wrap = None

                    if pass_ == 1 and (
                        (
                            match.match_type(first.type)
                            or (
                                inject := match.fill_before(
                                    Fragment.from_(first),
                                    False,
                                )
                            )
                        )
                        if first
                        else parent and type_.compatible_content(parent.type)
                    ):
                        return _Fittable(
                            slice_depth,
                            frontier_depth,
                            parent,
                            inject=inject,
                        )
                    elif (
                        pass_ == 2
                        and first
                        and (wrap := match.find_wrapping(first.type)) is not None
                    ):
                        return _Fittable(
                            slice_depth,
                            frontier_depth,
                            parent,
                            wrap=wrap,
                        )
                    if parent and match.match_type(parent.type):
                        break
        return None

    def open_more(self) -> bool:
        content = self.unplaced.content
        open_start = self.unplaced.open_start
        open_end = self.unplaced.open_end
        inner = content_at(content, open_start)
        if not inner.child_count or cast("Node", inner.first_child).is_leaf:
            return False
        self.unplaced = Slice(
            content,
            open_start + 1,
            max(
                open_end,
                open_start + 1
                if inner.size + open_start >= content.size - open_end
                else 0,
            ),
        )
        return True

    def drop_node(self) -> None:
        content = self.unplaced.content
        open_start = self.unplaced.open_start
        open_end = self.unplaced.open_end
        inner = content_at(content, open_start)
        if inner.child_count <= 1 and open_start > 0:
            open_at_end = content.size - open_start <= open_start + inner.size
            self.unplaced = Slice(
                drop_from_fragment(content, open_start - 1, 1),
                open_start - 1,
                open_start - 1 if open_at_end else open_end,
            )
        else:
            self.unplaced = Slice(
                drop_from_fragment(content, open_start, 1),
                open_start,
                open_end,
            )

    def place_nodes(self, fittable: _Fittable) -> None:
        slice_depth = fittable.slice_depth
        frontier_depth = fittable.frontier_depth
        parent = fittable.parent
        inject = fittable.inject
        wrap = fittable.wrap

        while self.depth > frontier_depth:
            self.close_frontier_node()

        if wrap:
            for w in wrap:
                self.open_frontier_node(w)

        slice = self.unplaced
        fragment = parent.content if parent else slice.content
        open_start = slice.open_start - slice_depth
        taken = 0
        add = []
        frontier_item = self.frontier[frontier_depth]
        match, type_ = frontier_item.match, frontier_item.type
        if inject:
            for i in range(inject.child_count):
                add.append(inject.child(i))
            matched_fragment = match.match_fragment(inject)
            assert matched_fragment is not None
            match = matched_fragment

        open_end_count = (fragment.size + slice_depth) - (
            slice.content.size - slice.open_end
        )

        while taken < fragment.child_count:
            next_ = fragment.child(taken)
            matches = match.match_type(next_.type)
            if not matches:
                break
            taken += 1
            if taken > 1 or open_start == 0 or next_.content.size:
                match = matches
                add.append(
                    close_node_start(
                        next_.mark(type_.allowed_marks(next_.marks)),
                        open_start if taken == 1 else 0,
                        open_end_count if taken == fragment.child_count else -1,
                    ),
                )

        to_end = taken == fragment.child_count
        if not to_end:
            open_end_count = -1

        self.placed = add_to_fragment(
            self.placed,
            frontier_depth,
            Fragment.from_(add),
        )
        self.frontier[frontier_depth].match = match

        if (
            to_end
            and open_end_count < 0
            and parent
            and parent.type == self.frontier[self.depth].type
            and len(self.frontier) > 1
        ):
            self.close_frontier_node()

        cur = fragment
        for _ in range(open_end_count):
            node = cur.last_child
            assert node is not None
            self.frontier.append(
                _FrontierItem(node.type, node.content_match_at(node.child_count)),
            )
            cur = node.content

        if not to_end:
            self.unplaced = Slice(
                drop_from_fragment(slice.content, slice_depth, taken),
                slice.open_start,
                slice.open_end,
            )
        elif slice_depth == 0:
            self.unplaced = Slice.empty
        else:
            self.unplaced = Slice(
                drop_from_fragment(slice.content, slice_depth - 1, 1),
                slice_depth - 1,
                slice.open_end if open_end_count < 0 else slice_depth - 1,
            )

    def must_move_inline(self) -> int:
        if not self.to_.parent.is_textblock:
            return -1
        top = self.frontier[self.depth]

        _nothing = object()
        level = _nothing

        def _lazy_level() -> _CloseLevel | None:
            nonlocal level
            if level is _nothing:
                level = self.find_close_level(self.to_)
            return cast(_CloseLevel | None, level)

        if (
            not top.type.is_textblock
            or not content_after_fits(
                self.to_,
                self.to_.depth,
                top.type,
                top.match,
                False,
            )
            or (
                self.to_.depth == self.depth
                and (lazy_level := _lazy_level())
                and lazy_level.depth == self.depth
            )
        ):
            return -1

        depth = self.to_.depth
        after = self.to_.after(depth)
        while depth > 1:
            depth -= 1
            if after != self.to_.end(depth):
                break
            after += 1
        return after

    def find_close_level(self, to_: ResolvedPos) -> _CloseLevel | None:
        for i in range(min(self.depth, to_.depth), -1, -1):
            match = self.frontier[i].match
            type_ = self.frontier[i].type
            drop_inner = i < to_.depth and to_.end(i + 1) == to_.pos + (
                to_.depth - (i + 1)
            )
            fit = content_after_fits(to_, i, type_, match, drop_inner)
            if not fit:
                continue
            for d in range(i - 1, -1, -1):
                match2, type2 = self.frontier[d].match, self.frontier[d].type
                matches = content_after_fits(to_, d, type2, match2, True)
                if not matches or matches.child_count:
                    break
            else:
                return _CloseLevel(
                    depth=i,
                    fit=fit,
                    move=to_.doc.resolve(to_.after(i + 1)) if drop_inner else to_,
                )
        return None

    def close(self, to_: ResolvedPos) -> ResolvedPos | None:
        close = self.find_close_level(to_)
        if not close:
            return None

        while self.depth > close.depth:
            self.close_frontier_node()
        if close.fit.child_count:
            self.placed = add_to_fragment(self.placed, close.depth, close.fit)
        to_ = close.move
        for d in range(close.depth + 1, to_.depth + 1):
            node = to_.node(d)
            add = node.type.content_match.fill_before(node.content, True, to_.index(d))
            self.open_frontier_node(node.type, node.attrs, add)
        return to_

    def open_frontier_node(
        self,
        type_: NodeType,
        attrs: Attrs | None = None,
        content: Fragment | None = None,
    ) -> None:
        top = self.frontier[self.depth]
        # Like upstream, tolerate a type that does not match here: `close` reopens the
        # nodes of the target position, whose frontier entries are not matched against again.
        top.match = cast(ContentMatch, top.match.match_type(type_))
        self.placed = add_to_fragment(
            self.placed,
            self.depth,
            Fragment.from_(type_.create(attrs, content)),
        )
        self.frontier.append(_FrontierItem(type_, type_.content_match))

    def close_frontier_node(self) -> None:
        open_ = self.frontier.pop()
        add = open_.match.fill_before(Fragment.empty, True)
        if add and add.child_count:
            self.placed = add_to_fragment(self.placed, len(self.frontier), add)


def drop_from_fragment(fragment: Fragment, depth: int, count: int) -> Fragment:
    if depth == 0:
        return fragment.cut_by_index(count)
    first_child = fragment.first_child
    assert first_child
    return fragment.replace_child(
        0,
        first_child.copy(drop_from_fragment(first_child.content, depth - 1, count)),
    )


def add_to_fragment(fragment: Fragment, depth: int, content: Fragment) -> Fragment:
    if depth == 0:
        return fragment.append(content)
    last_child = fragment.last_child
    assert last_child
    return fragment.replace_child(
        fragment.child_count - 1,
        last_child.copy(add_to_fragment(last_child.content, depth - 1, content)),
    )


def content_at(fragment: Fragment, depth: int) -> Fragment:
    for _ in range(depth):
        fragment = cast(Node, fragment.first_child).content
    return fragment


def close_node_start(node: Node, open_start: int, open_end: int) -> Node:
    if open_start <= 0:
        return node
    frag = node.content
    if open_start > 1:
        assert frag.first_child is not None
        frag = frag.replace_child(
            0,
            close_node_start(
                frag.first_child,
                open_start - 1,
                open_end - 1 if frag.child_count == 1 else 0,
            ),
        )
    if open_start > 0:
        fill_before_frag = node.type.content_match.fill_before(frag)
        assert fill_before_frag is not None
        frag = fill_before_frag.append(frag)
        if open_end <= 0:
            matched_fragment = node.type.content_match.match_fragment(frag)
            assert matched_fragment is not None
            fill_before_frag = matched_fragment.fill_before(Fragment.empty, True)
            assert fill_before_frag is not None
            frag = frag.append(fill_before_frag)
    return node.copy(frag)


def content_after_fits(
    to_: ResolvedPos,
    depth: int,
    type_: NodeType,
    match: ContentMatch,
    open_: bool,
) -> Fragment | None:
    node = to_.node(depth)
    index = to_.index_after(depth) if open_ else to_.index(depth)
    if index == node.child_count and not type_.compatible_content(node.type):
        return None
    fit = match.fill_before(node.content, True, index)
    return fit if fit and not invalid_marks(type_, node.content, index) else None


def invalid_marks(type_: NodeType, fragment: Fragment, start: int) -> bool:
    for i in range(start, fragment.child_count):
        if not type_.allows_marks(fragment.child(i).marks):
            return True
    return False


def close_fragment(
    fragment: Fragment,
    depth: int,
    old_open: int,
    new_open: int,
    parent: Node | None,
    open_end: int = 0,
    on_end_spine: bool = True,
) -> Fragment:
    if depth < old_open:
        first = fragment.first_child
        assert first is not None
        fragment = fragment.replace_child(
            0,
            first.copy(
                close_fragment(
                    first.content,
                    depth + 1,
                    old_open,
                    new_open,
                    first,
                    open_end,
                    on_end_spine and fragment.child_count == 1,
                ),
            ),
        )
    if depth > new_open:
        assert parent is not None
        match = parent.content_match_at(0)
        fill_before_frag = match.fill_before(fragment)
        assert fill_before_frag is not None
        start = fill_before_frag.append(fragment)
        if on_end_spine and open_end > depth:
            # the last child here stays open at the end: a filler appended after
            # it would take its place on the open side and leave it closed as it
            # was cut; whoever closes that side completes this level
            return start
        matched_fragment = match.match_fragment(start)
        assert matched_fragment is not None
        matched_fragment_fill_before = matched_fragment.fill_before(
            Fragment.empty,
            True,
        )
        assert matched_fragment_fill_before is not None
        fragment = start.append(matched_fragment_fill_before)
    return fragment


def covered_depths(
    from__: ResolvedPos,
    to_: ResolvedPos,
) -> list[int]:
    result = []
    min_depth = min(from__.depth, to_.depth)
    for d in range(min_depth, -1, -1):
        start = from__.start(d)
        if (
            (start < from__.pos - (from__.depth - d))
            or (to_.end(d) > to_.pos + (to_.depth - d))
            or (from__.node(d).type.spec.get("isolating"))
            or (to_.node(d).type.spec.get("isolating"))
        ):
            break
        if start == to_.start(d) or (
            d == from__.depth
            and d == to_.depth
            and from__.parent.inline_content
            and to_.parent.inline_content
            and d
            and to_.start(d - 1) == start - 1
        ):
            result.append(d)
    return result
