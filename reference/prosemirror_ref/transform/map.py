import abc
from collections.abc import Callable
from typing import ClassVar, Literal, overload

lower16 = 0xFFFF
factor16 = 2**16


def make_recover(index: float, offset: int) -> int:
    return int(index + offset * factor16)


def recover_index(value: int) -> int:
    return int(value & lower16)


def recover_offset(value: int) -> int:
    return int((value - (value & lower16)) / factor16)


DEL_BEFORE = 1
DEL_AFTER = 2
DEL_ACROSS = 4
DEL_SIDE = 8


class MapResult:
    def __init__(self, pos: int, del_info: int = 0, recover: int | None = None) -> None:
        self.pos = pos
        self.del_info = del_info
        self.recover = recover

    #   get deleted() { return (this.delInfo & DEL_SIDE) > 0 }

    #   get deletedBefore() { return (this.delInfo & (DEL_BEFORE | DEL_ACROSS)) > 0 }

    #   get deletedAfter() { return (this.delInfo & (DEL_AFTER | DEL_ACROSS)) > 0 }

    #   get deletedAcross() { return (this.delInfo & DEL_ACROSS) > 0 }

    @property
    def deleted(self) -> bool:
        return (self.del_info & DEL_SIDE) > 0

    @property
    def deleted_before(self) -> bool:
        return (self.del_info & (DEL_BEFORE | DEL_ACROSS)) > 0

    @property
    def deleted_after(self) -> bool:
        return (self.del_info & (DEL_AFTER | DEL_ACROSS)) > 0

    @property
    def deleted_across(self) -> bool:
        return (self.del_info & DEL_ACROSS) > 0


class Mappable(metaclass=abc.ABCMeta):
    @abc.abstractmethod
    def map(self, pos: int, assoc: int = 1) -> int: ...

    @abc.abstractmethod
    def map_result(self, pos: int, assoc: int = 1) -> MapResult: ...


class StepMap(Mappable):
    empty: ClassVar["StepMap"]

    def __init__(self, ranges: list[int], inverted: bool = False) -> None:
        # prosemirror-transform overrides the constructor to return the
        # StepMap.empty singleton when ranges are empty.
        # It is not easy to do in Python, and the intent of that is to make sure
        # empty stepmaps can eq to each other, which is already the case in Python.
        self.ranges = ranges
        self.inverted = inverted

    def recover(self, value: int) -> int:
        diff = 0
        index = recover_index(value)
        if not self.inverted:
            for i in range(index):
                diff += self.ranges[i * 3 + 2] - self.ranges[i * 3 + 1]
        return self.ranges[index * 3] + diff + recover_offset(value)

    def map(self, pos: int, assoc: int = 1) -> int:
        return self._map(pos, assoc, True)

    def map_result(self, pos: int, assoc: int = 1) -> MapResult:
        return self._map(pos, assoc, False)

    @overload
    def _map(self, pos: int, assoc: int, simple: Literal[True]) -> int: ...

    @overload
    def _map(self, pos: int, assoc: int, simple: Literal[False]) -> MapResult: ...

    def _map(self, pos: int, assoc: int, simple: bool) -> MapResult | int:
        diff = 0
        old_index = 2 if self.inverted else 1
        new_index = 1 if self.inverted else 2
        for i in range(0, len(self.ranges), 3):
            start = self.ranges[i] - (diff if self.inverted else 0)
            if start > pos:
                break
            old_size = self.ranges[i + old_index]
            new_size = self.ranges[i + new_index]
            end = start + old_size
            if pos <= end:
                if not old_size:
                    side = assoc
                elif pos == start:
                    side = -1
                elif pos == end:
                    side = 1
                else:
                    side = assoc
                result = start + diff + (0 if side < 0 else new_size)
                if simple:
                    return result
                recover = (
                    None
                    if pos == (start if assoc < 0 else end)
                    else make_recover(i / 3, pos - start)
                )
                del_info = (
                    DEL_AFTER
                    if pos == start
                    else (DEL_BEFORE if pos == end else DEL_ACROSS)
                )
                if pos != start if assoc < 0 else pos != end:
                    del_info |= DEL_SIDE
                return MapResult(result, del_info, recover)
            diff += new_size - old_size
        return pos + diff if simple else MapResult(pos + diff, 0, None)

    def touches(self, pos: int, recover: int) -> bool:
        diff = 0
        index = recover_index(recover)
        old_index = 2 if self.inverted else 1
        new_index = 1 if self.inverted else 2
        for i in range(0, len(self.ranges), 3):
            start = self.ranges[i] - (diff if self.inverted else 0)
            if start > pos:
                break
            old_size = self.ranges[i + old_index]
            end = start + old_size
            if pos <= end and i == index * 3:
                return True
            diff += self.ranges[i + new_index] - old_size
        return False

    def for_each(self, f: Callable[[int, int, int, int], None]) -> None:
        old_index = 2 if self.inverted else 1
        new_index = 1 if self.inverted else 2
        i = 0
        diff = 0
        while i < len(self.ranges):
            start = self.ranges[i]
            old_start = start - (diff if self.inverted else 0)
            new_start = start + (0 if self.inverted else diff)
            old_size = self.ranges[i + old_index]
            new_size = self.ranges[i + new_index]
            f(old_start, old_start + old_size, new_start, new_start + new_size)
            diff += new_size - old_size
            i += 3

    def invert(self) -> "StepMap":
        return StepMap(self.ranges, not self.inverted)

    def __str__(self) -> str:
        return ("-" if self.inverted else "") + str(self.ranges)


StepMap.empty = StepMap([])


class Mapping(Mappable):
    def __init__(
        self,
        maps: list[StepMap] | None = None,
        mirror: list[int] | None = None,
        from_: int | None = None,
        to: int | None = None,
    ) -> None:
        self.maps = maps or []
        self.from_ = from_ or 0
        self.to = len(self.maps) if to is None else to
        self.mirror = mirror

    def slice(self, from_: int = 0, to: int | None = None) -> "Mapping":
        if to is None:
            to = len(self.maps)
        return Mapping(self.maps, self.mirror, from_, to)

    def copy(self) -> "Mapping":
        return Mapping(
            self.maps[:],
            (self.mirror[:] if self.mirror else None),
            self.from_,
            self.to,
        )

    def append_map(self, map: StepMap, mirrors: int | None = None) -> None:
        self.maps.append(map)
        self.to = len(self.maps)
        if mirrors is not None:
            self.set_mirror(len(self.maps) - 1, mirrors)

    def append_mapping(self, mapping: "Mapping") -> None:
        i = 0
        start_size = len(self.maps)
        while i < len(mapping.maps):
            mirr = mapping.get_mirror(i)
            self.append_map(
                mapping.maps[i],
                (start_size + mirr) if (mirr is not None and mirr < i) else None,
            )
            i += 1

    def get_mirror(self, n: int) -> int | None:
        if self.mirror:
            for i in range(len(self.mirror)):
                if (self.mirror[i]) == n:
                    return self.mirror[i + (-1 if i % 2 else 1)]
        return None

    def set_mirror(self, n: int, m: int) -> None:
        if not self.mirror:
            self.mirror = []
        self.mirror.extend([n, m])

    def append_mapping_inverted(self, mapping: "Mapping") -> None:
        i = len(mapping.maps) - 1
        total_size = len(self.maps) + len(mapping.maps)
        while i >= 0:
            mirr = mapping.get_mirror(i)
            self.append_map(
                mapping.maps[i].invert(),
                (total_size - mirr - 1) if (mirr is not None and mirr > i) else None,
            )
            i -= 1

    def invert(self) -> "Mapping":
        inverse = Mapping()
        inverse.append_mapping_inverted(self)
        return inverse

    def map(self, pos: int, assoc: int = 1) -> int:
        if self.mirror:
            return self._map(pos, assoc, True)
        for i in range(self.from_, self.to):
            pos = self.maps[i].map(pos, assoc)
        return pos

    def map_result(self, pos: int, assoc: int = 1) -> MapResult:
        return self._map(pos, assoc, False)

    @overload
    def _map(self, pos: int, assoc: int, simple: Literal[True]) -> int: ...

    @overload
    def _map(self, pos: int, assoc: int, simple: Literal[False]) -> MapResult: ...

    def _map(self, pos: int, assoc: int, simple: bool) -> MapResult | int:
        del_info = 0

        i = self.from_
        while i < self.to:
            map = self.maps[i]
            result = map.map_result(pos, assoc)
            if result.recover is not None:
                corr = self.get_mirror(i)
                if corr is not None and corr > i and corr < self.to:
                    i = corr
                    pos = self.maps[corr].recover(result.recover)
                    i += 1
                    continue
            del_info |= result.del_info
            pos = result.pos
            i += 1
        return pos if simple else MapResult(pos, del_info, None)
