# Upstream adds methods to the Transform class prototype in this file, instead
# see transform.py for add_mark, remove_mark, and clear_incompatible.
