import abc
from typing import Any, Literal, Optional, TypeVar, cast, overload

from prosemirror_ref.model import Node, ReplaceError, Schema, Slice
from prosemirror_ref.transform.map import Mappable, StepMap
from prosemirror_ref.utils import JSONDict

# like a registry
STEPS_BY_ID: dict[str, type["Step"]] = {}
StepSubclass = TypeVar("StepSubclass", bound="Step")


class Step(metaclass=abc.ABCMeta):
    json_id: str

    @abc.abstractmethod
    def apply(self, _doc: Node) -> "StepResult": ...

    def get_map(self) -> StepMap:
        return StepMap.empty

    @abc.abstractmethod
    def invert(self, _doc: Node) -> "Step": ...

    @abc.abstractmethod
    def map(self, _mapping: Mappable) -> Optional["Step"]: ...

    def merge(self, _other: "Step") -> Optional["Step"]:
        return None

    @abc.abstractmethod
    def to_json(self) -> JSONDict: ...

    @staticmethod
    def from_json(schema: Schema[Any, Any], json_data: JSONDict | str) -> "Step":
        if isinstance(json_data, str):
            import json

            json_data = cast(JSONDict, json.loads(json_data))

        if not json_data or not json_data.get("stepType"):
            msg = "Invalid inpit for Step.from_json"
            raise ValueError(msg)
        type = STEPS_BY_ID.get(cast(str, json_data["stepType"]))
        if not type:
            msg = f'no step type {json_data["stepType"]} defined'
            raise ValueError(msg)
        return type.from_json(schema, json_data)


def step_json_id(id: str, step_class: type[StepSubclass]) -> type[StepSubclass]:
    if id in STEPS_BY_ID:
        msg = f"Duplicated JSON ID for step type: {id}"
        raise ValueError(msg)

    STEPS_BY_ID[id] = step_class
    step_class.json_id = id

    return step_class


class StepResult:
    @overload
    def __init__(self, doc: Node, failed: Literal[None]) -> None: ...

    @overload
    def __init__(self, doc: None, failed: str) -> None: ...

    def __init__(self, doc: Node | None, failed: str | None) -> None:
        self.doc = doc
        self.failed = failed

    @classmethod
    def ok(cls, doc: Node) -> "StepResult":
        return cls(doc, None)

    @classmethod
    def fail(cls, message: str) -> "StepResult":
        return cls(None, message)

    @classmethod
    def from_replace(cls, doc: Node, from_: int, to: int, slice: Slice) -> "StepResult":
        try:
            return cls.ok(doc.replace(from_, to, slice))
        except ReplaceError as e:
            return cls.fail(e.args[0])
