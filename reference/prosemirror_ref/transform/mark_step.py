from collections.abc import Callable
from typing import Any, cast

from prosemirror_ref.model import Fragment, Mark, Node, Schema, Slice
from prosemirror_ref.transform.map import Mappable
from prosemirror_ref.transform.step import Step, StepResult, step_json_id
from prosemirror_ref.utils import JSONDict


def map_fragment(
    fragment: Fragment,
    f: Callable[[Node, Node, int], Node],
    parent: Node,
) -> Fragment:
    mapped = []
    for i in range(fragment.child_count):
        child = fragment.child(i)
        if getattr(child.content, "size", None):
            child = child.copy(map_fragment(child.content, f, child))
        if child.is_inline:
            child = f(child, parent, i)
        mapped.append(child)
    return fragment.from_array(mapped)


class AddMarkStep(Step):
    def __init__(self, from_: int, to: int, mark: Mark) -> None:
        super().__init__()
        self.from_ = from_
        self.to = to
        self.mark = mark

    def apply(self, doc: Node) -> StepResult:
        old_slice = doc.slice(self.from_, self.to)
        from__ = doc.resolve(self.from_)
        parent = from__.node(from__.shared_depth(self.to))

        def iteratee(node: Node, parent: Node | None, i: int) -> Node:
            if parent and (
                not node.is_atom or not parent.type.allows_mark_type(self.mark.type)
            ):
                return node
            return node.mark(self.mark.add_to_set(node.marks))

        slice = Slice(
            map_fragment(old_slice.content, iteratee, parent),
            old_slice.open_start,
            old_slice.open_end,
        )
        return StepResult.from_replace(doc, self.from_, self.to, slice)

    def invert(self, doc: Node | None = None) -> Step:
        return RemoveMarkStep(self.from_, self.to, self.mark)

    def map(self, mapping: Mappable) -> Step | None:
        from_ = mapping.map_result(self.from_, 1)
        to = mapping.map_result(self.to, -1)
        if (from_.deleted and to.deleted) or from_.pos > to.pos:
            return None
        return AddMarkStep(from_.pos, to.pos, self.mark)

    def merge(self, other: Step) -> Step | None:
        if (
            isinstance(other, AddMarkStep)
            and other.mark.eq(self.mark)
            and self.from_ <= other.to
            and self.to >= other.from_
        ):
            return AddMarkStep(
                min(self.from_, other.from_),
                max(self.to, other.to),
                self.mark,
            )
        return None

    def to_json(self) -> JSONDict:
        return {
            "stepType": "addMark",
            "mark": self.mark.to_json(),
            "from": self.from_,
            "to": self.to,
        }

    @staticmethod
    def from_json(schema: Schema[Any, Any], json_data: JSONDict | str) -> "AddMarkStep":
        if isinstance(json_data, str):
            import json

            json_data = cast(JSONDict, json.loads(json_data))

        if not isinstance(json_data["from"], int) or not isinstance(
            json_data["to"],
            int,
        ):
            msg = "Invalid input for AddMarkStep.from_json"
            raise ValueError(msg)
        return AddMarkStep(
            json_data["from"],
            json_data["to"],
            schema.mark_from_json(cast(JSONDict, json_data["mark"])),
        )


step_json_id("addMark", AddMarkStep)


class RemoveMarkStep(Step):
    def __init__(self, from_: int, to: int, mark: Mark) -> None:
        super().__init__()
        self.from_ = from_
        self.to = to
        self.mark = mark

    def apply(self, doc: Node) -> StepResult:
        old_slice = doc.slice(self.from_, self.to)

        def iteratee(node: Node, parent: Node | None, i: int) -> Node:
            return node.mark(self.mark.remove_from_set(node.marks))

        slice = Slice(
            map_fragment(old_slice.content, iteratee, doc),
            old_slice.open_start,
            old_slice.open_end,
        )
        return StepResult.from_replace(doc, self.from_, self.to, slice)

    def invert(self, doc: Node | None = None) -> Step:
        return AddMarkStep(self.from_, self.to, self.mark)

    def map(self, mapping: Mappable) -> Step | None:
        from_ = mapping.map_result(self.from_, 1)
        to = mapping.map_result(self.to, -1)
        if (from_.deleted and to.deleted) or (from_.pos > to.pos):
            return None
        return RemoveMarkStep(from_.pos, to.pos, self.mark)

    def merge(self, other: Step) -> Step | None:
        if (
            isinstance(other, RemoveMarkStep)
            and (other.mark.eq(self.mark))
            and (self.from_ <= other.to)
            and self.to >= other.from_
        ):
            return RemoveMarkStep(
                min(self.from_, other.from_),
                max(self.to, other.to),
                self.mark,
            )
        return None

    def to_json(self) -> JSONDict:
        return {
            "stepType": "removeMark",
            "mark": self.mark.to_json(),
            "from": self.from_,
            "to": self.to,
        }

    @staticmethod
    def from_json(schema: Schema[Any, Any], json_data: JSONDict | str) -> Step:
        if isinstance(json_data, str):
            import json

            json_data = cast(JSONDict, json.loads(json_data))

        if not isinstance(json_data["from"], int) or not isinstance(
            json_data["to"],
            int,
        ):
            msg = "Invalid input for RemoveMarkStep.from_json"
            raise ValueError(msg)
        return RemoveMarkStep(
            json_data["from"],
            json_data["to"],
            schema.mark_from_json(cast(JSONDict, json_data["mark"])),
        )


step_json_id("removeMark", RemoveMarkStep)


class AddNodeMarkStep(Step):
    def __init__(self, pos: int, mark: Mark) -> None:
        super().__init__()
        self.pos = pos
        self.mark = mark

    def apply(self, doc: Node) -> StepResult:
        node = doc.node_at(self.pos)
        if not node:
            return StepResult.fail("No node at mark step's position")
        updated = node.type.create(node.attrs, None, self.mark.add_to_set(node.marks))
        return StepResult.from_replace(
            doc,
            self.pos,
            self.pos + 1,
            Slice(Fragment.from_(updated), 0, 0 if node.is_leaf else 1),
        )

    def invert(self, doc: Node) -> Step:
        node = doc.node_at(self.pos)
        if node:
            new_set = self.mark.add_to_set(node.marks)
            if len(new_set) == len(node.marks):
                for i in range(len(node.marks)):
                    if not node.marks[i].is_in_set(new_set):
                        return AddNodeMarkStep(self.pos, node.marks[i])
                return AddNodeMarkStep(self.pos, self.mark)
        return RemoveNodeMarkStep(self.pos, self.mark)

    def map(self, mapping: Mappable) -> Step | None:
        pos = mapping.map_result(self.pos, 1)
        return None if pos.deleted_after else AddNodeMarkStep(pos.pos, self.mark)

    def to_json(self) -> JSONDict:
        return {
            "stepType": "addNodeMark",
            "pos": self.pos,
            "mark": self.mark.to_json(),
        }

    @staticmethod
    def from_json(schema: Schema[Any, Any], json_data: JSONDict | str) -> Step:
        if isinstance(json_data, str):
            import json

            json_data = cast(JSONDict, json.loads(json_data))

        if not isinstance(json_data["pos"], int):
            msg = "Invalid input for AddNodeMarkStep.from_json"
            raise ValueError(msg)
        return AddNodeMarkStep(
            json_data["pos"],
            schema.mark_from_json(cast(JSONDict, json_data["mark"])),
        )


step_json_id("addNodeMark", AddNodeMarkStep)


class RemoveNodeMarkStep(Step):
    def __init__(self, pos: int, mark: Mark) -> None:
        super().__init__()
        self.pos = pos
        self.mark = mark

    def apply(self, doc: Node) -> StepResult:
        node = doc.node_at(self.pos)
        if not node:
            return StepResult.fail("No node at mark step's position")
        updated = node.type.create(
            node.attrs,
            None,
            self.mark.remove_from_set(node.marks),
        )
        return StepResult.from_replace(
            doc,
            self.pos,
            self.pos + 1,
            Slice(Fragment.from_(updated), 0, 0 if node.is_leaf else 1),
        )

    def invert(self, doc: Node) -> Step:
        node = doc.node_at(self.pos)
        if not node or not self.mark.is_in_set(node.marks):
            return self
        return AddNodeMarkStep(self.pos, self.mark)

    def map(self, mapping: Mappable) -> Step | None:
        pos = mapping.map_result(self.pos, 1)
        return None if pos.deleted_after else RemoveNodeMarkStep(pos.pos, self.mark)

    def to_json(self) -> JSONDict:
        return {
            "stepType": "removeNodeMark",
            "pos": self.pos,
            "mark": self.mark.to_json(),
        }

    @staticmethod
    def from_json(schema: Schema[Any, Any], json_data: JSONDict | str) -> Step:
        if isinstance(json_data, str):
            import json

            json_data = cast(JSONDict, json.loads(json_data))

        if not isinstance(json_data["pos"], int):
            msg = "Invalid input for RemoveNodeMarkStep.from_json"
            raise ValueError(msg)
        return RemoveNodeMarkStep(
            json_data["pos"],
            schema.mark_from_json(cast(JSONDict, json_data["mark"])),
        )


step_json_id("removeNodeMark", RemoveNodeMarkStep)
