from typing import Any, Optional, cast

from prosemirror_ref.model import Node, Schema, Slice
from prosemirror_ref.transform.map import Mappable, StepMap
from prosemirror_ref.transform.step import Step, StepResult, step_json_id
from prosemirror_ref.utils import JSONDict


class ReplaceStep(Step):
    def __init__(
        self,
        from_: int,
        to: int,
        slice: Slice,
        structure: bool | None = None,
    ) -> None:
        super().__init__()
        self.from_ = from_
        self.to = to
        self.slice = slice
        self.structure = bool(structure)

    def apply(self, doc: Node) -> StepResult:
        if self.structure and content_between(doc, self.from_, self.to):
            return StepResult.fail("Structure replace would overrite content")
        return StepResult.from_replace(doc, self.from_, self.to, self.slice)

    def get_map(self) -> StepMap:
        return StepMap([self.from_, self.to - self.from_, self.slice.size])

    def invert(self, doc: Node) -> "ReplaceStep":
        return ReplaceStep(
            self.from_,
            self.from_ + self.slice.size,
            doc.slice(self.from_, self.to),
        )

    def map(self, mapping: Mappable) -> Optional["ReplaceStep"]:
        from_ = mapping.map_result(self.from_, 1)
        to = mapping.map_result(self.to, -1)
        if from_.deleted and to.deleted:
            return None
        return ReplaceStep(from_.pos, max(from_.pos, to.pos), self.slice)

    def merge(self, other: "Step") -> Optional["ReplaceStep"]:
        if not isinstance(other, ReplaceStep) or other.structure or self.structure:
            return None
        if (
            self.from_ + self.slice.size == other.from_
            and not self.slice.open_end
            and not other.slice.open_start
        ):
            if self.slice.size + other.slice.size == 0:
                slice = Slice.empty
            else:
                slice = Slice(
                    self.slice.content.append(other.slice.content),
                    self.slice.open_start,
                    other.slice.open_end,
                )
            return ReplaceStep(
                self.from_,
                self.to + (other.to - other.from_),
                slice,
                self.structure,
            )
        elif (
            other.to == self.from_
            and not self.slice.open_start
            and not other.slice.open_end
        ):
            if self.slice.size + other.slice.size == 0:
                slice = Slice.empty
            else:
                slice = Slice(
                    other.slice.content.append(self.slice.content),
                    other.slice.open_start,
                    self.slice.open_end,
                )
            return ReplaceStep(other.from_, self.to, slice, self.structure)
        return None

    def to_json(self) -> JSONDict:
        json_data: JSONDict = {"stepType": "replace", "from": self.from_, "to": self.to}
        if self.slice.content.size:
            json_data = {
                **json_data,
                "slice": self.slice.to_json(),
            }
        if self.structure:
            json_data = {
                **json_data,
                "structure": True,
            }
        return json_data

    @staticmethod
    def from_json(schema: Schema[Any, Any], json_data: JSONDict | str) -> "ReplaceStep":
        if isinstance(json_data, str):
            import json

            json_data = cast(JSONDict, json.loads(json_data))

        if not isinstance(json_data["from"], int) or not isinstance(
            json_data["to"],
            int,
        ):
            msg = "Invlid input for ReplaceStep.from_json"
            raise ValueError(msg)
        return ReplaceStep(
            json_data["from"],
            json_data["to"],
            Slice.from_json(schema, cast(JSONDict | None, json_data.get("slice"))),
            bool(json_data.get("structure")),
        )


step_json_id("replace", ReplaceStep)


class ReplaceAroundStep(Step):
    def __init__(
        self,
        from_: int,
        to: int,
        gap_from: int,
        gap_to: int,
        slice: Slice,
        insert: int,
        structure: bool | None = None,
    ) -> None:
        super().__init__()
        self.from_ = from_
        self.to = to
        self.gap_from = gap_from
        self.gap_to = gap_to
        self.slice = slice
        self.insert = insert
        self.structure = bool(structure)

    def apply(self, doc: Node) -> StepResult:
        if self.structure and (
            content_between(doc, self.from_, self.gap_from)
            or content_between(doc, self.gap_to, self.to)
        ):
            return StepResult.fail("Structure gap-replace would overwrite content")
        gap = doc.slice(self.gap_from, self.gap_to)
        if gap.open_start or gap.open_end:
            return StepResult.fail("Gap is not a flat range")
        inserted = self.slice.insert_at(self.insert, gap.content)
        if not inserted:
            return StepResult.fail("Content does not fit in gap")
        return StepResult.from_replace(doc, self.from_, self.to, inserted)

    def get_map(self) -> StepMap:
        return StepMap([
            self.from_,
            self.gap_from - self.from_,
            self.insert,
            self.gap_to,
            self.to - self.gap_to,
            self.slice.size - self.insert,
        ])

    def invert(self, doc: Node) -> "ReplaceAroundStep":
        gap = self.gap_to - self.gap_from
        return ReplaceAroundStep(
            self.from_,
            self.from_ + self.slice.size + gap,
            self.from_ + self.insert,
            self.from_ + self.insert + gap,
            doc.slice(self.from_, self.to).remove_between(
                self.gap_from - self.from_,
                self.gap_to - self.from_,
            ),
            self.gap_from - self.from_,
            self.structure,
        )

    def map(self, mapping: Mappable) -> Optional["ReplaceAroundStep"]:
        from_ = mapping.map_result(self.from_, 1)
        to = mapping.map_result(self.to, -1)
        gap_from = mapping.map(self.gap_from, -1)
        gap_to = mapping.map(self.gap_to, 1)
        if (from_.deleted and to.deleted) or gap_from < from_.pos or gap_to > to.pos:
            return None
        return ReplaceAroundStep(
            from_.pos,
            to.pos,
            gap_from,
            gap_to,
            self.slice,
            self.insert,
            self.structure,
        )

    def to_json(self) -> JSONDict:
        json_data: JSONDict = {
            "stepType": "replaceAround",
            "from": self.from_,
            "to": self.to,
            "gapFrom": self.gap_from,
            "gapTo": self.gap_to,
            "insert": self.insert,
        }
        if self.slice.content.size:
            json_data = {
                **json_data,
                "slice": self.slice.to_json(),
            }
        if self.structure:
            json_data = {
                **json_data,
                "structure": True,
            }
        return json_data

    @staticmethod
    def from_json(
        schema: Schema[Any, Any],
        json_data: JSONDict | str,
    ) -> "ReplaceAroundStep":
        if isinstance(json_data, str):
            import json

            json_data = cast(JSONDict, json.loads(json_data))

        if (
            not isinstance(json_data["from"], int)
            or not isinstance(json_data["to"], int)
            or not isinstance(json_data["gapFrom"], int)
            or not isinstance(json_data["gapTo"], int)
            or not isinstance(json_data["insert"], int)
        ):
            msg = "Invlid input for ReplaceAroundStep.from_json"
            raise ValueError(msg)
        return ReplaceAroundStep(
            json_data["from"],
            json_data["to"],
            json_data["gapFrom"],
            json_data["gapTo"],
            Slice.from_json(schema, cast(JSONDict | None, json_data.get("slice"))),
            json_data["insert"],
            bool(json_data.get("structure")),
        )


step_json_id("replaceAround", ReplaceAroundStep)


def content_between(doc: Node, from_: int, to: int) -> bool:
    from__ = doc.resolve(from_)
    dist = to - from_
    if dist > 0 and from__.text_offset:
        # the range starts inside a text node: the rest of that text is content
        return True
    depth = from__.depth
    while (
        dist > 0
        and depth > 0
        and from__.index_after(depth) == from__.node(depth).child_count
    ):
        depth -= 1
        dist -= 1
    if dist > 0:
        next = from__.node(depth).maybe_child(from__.index_after(depth))
        while dist > 0:
            if not next or next.is_leaf:
                return True
            next = next.first_child
            dist -= 1
    return False
