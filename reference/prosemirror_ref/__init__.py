from .model import Fragment, Mark, Node, ResolvedPos, Schema, Slice
from .schema.basic import schema as basic_schema
from .transform import Mapping, Step, Transform

__all__ = [
    "Fragment",
    "Mapping",
    "Mark",
    "Node",
    "ResolvedPos",
    "Schema",
    "Slice",
    "Step",
    "Transform",
    "basic_schema",
]
